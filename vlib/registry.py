"""Which engines decide which property, with their quick / thorough budgets."""


def _c17_faults(**kw):
    from .c17_faults import run
    return run(**kw)


def _c17_fuzz(**kw):
    from .c17_fuzz import run
    return run(**kw)


def J(engine, variant="san", quick=None, thorough=None, **kw):
    d = {"engine": engine, "variant": variant, "quick": quick or {}, "thorough": thorough or {}}
    d.update(kw)
    return d


PROPERTIES = {
    "C05": {
        "rule": "rapidcheck: triangle + query point constructed per Voronoi region (3 vertices, 3 edges, interior), aspect "
                "ratios to 1:1000, scale 1e-12..1e6 (picometre-sized features in metres to megametres), placed by a random rigid motion up to 1000 sizes and (1/3) 1e5 - 1e10 sizes from the origin; oracle = "
                "independent feature-brute-force closest point, |p-q|^2 vs returned d2, the designated point judged once more relative to vertex A with a tolerance that does not contain the distance to the origin, rigid-motion invariance. A case is "
                "non-trivial when the target region is not vertex A and |a| > 10 triangle sizes; distinct = hash of the "
                "serialised coordinates.",
        "min_nontrivial": 1000,
        "assumptions": ["triangle non-degenerate: area >= 1e-7 * (longest edge)^2",
                        "tolerances derived from eps * (|coordinates| + size) with a conditioning term size^2/area"],
        "jobs": [J("C05_kernel", quick={"cases": 12000, "shards": 16}, thorough={"cases": 600000, "shards": 16})],
    },
    "C01": {
        "rule": "rapidcheck stateful histories on one live cell: start mesh from 6 construction families, or (1/4) a hub with 1-3 lobes glued on its faces (connected sums: cycles of three edges that bound no face), and (1/40) the node ids scattered over a point list of ~1e5 slots with two node-disjoint edges whose Cantor pairings differ by exactly 2^32 (+ random 1-to-3 / edge-split "
                "refinements, anisotropic scale, shear, radial bump, node noise, rigid motion, length units from nanometre-in-metres (3e-9) over um and unit scale to 1e4), then up to ~40 commands "
                "drawn from {displace (noise / stretch / compress / bump / pinch), refresh normals, refine pass with or without swaps, "
                "split / swap of the k-th edge, collapse of the k-th too-short edge, rebase, force-driven step}; the independent topology "
                "oracle runs after every command. Non-trivial = history in which a split (or pass) and a swap (or pass) changed the "
                "mesh, at least two kinds of refiner command were effective and one command hit a face created by an earlier command; "
                "distinct = hash of start mesh + command list.",
        "min_nontrivial": 100,
        "assumptions": ["positive-volume clause asserted only while the enclosed volume is >= 20 l_max^3 (a cell of the order of l_min "
                        "legitimately collapses); histories end when the cell has fewer than 10 faces or a command gives up with mesh_integrity_exception; the surface such a command leaves behind must still satisfy the combinatorial and bookkeeping clauses",
                        "cached normals may be one displacement old on faces a refiner command did not touch (that is how the solver calls it)"],
        "jobs": [J("C01_remesh", quick={"cases": 500, "shards": 16, "max_size": 50},
                   thorough={"cases": 12000, "shards": 16, "max_size": 80}),
                 J("C01_remesh", variant="san-dm1", quick={"cases": 150, "shards": 4, "max_size": 50},
                   thorough={"cases": 3000, "shards": 8, "max_size": 80})],
    },
    "C02": {
        "rule": "rapidcheck: closed mesh (6 families, refinements, deformations, rigid placement up to 1000 sizes from the origin, um and "
                "unit scale, permuted numbering), 1-4 face types with independent zero/non-zero tension and bending modulus, random "
                "per-face labels, bulk / area-elasticity / angle-regularisation moduli over decades, target volume != volume; 1/3 of the cells first undergo 3-9 real edge collapses / splits (public local_mesh_refiner) that leave unused node and face slots, the state of most cells in a running simulation (covariance clause skipped for those). Each "
                "force term is isolated through the cell_tester friend and judged against closed-form gradients (volume gradient "
                "cross-checked by finite differences); the public apply_internal_forces is called twice, the second time after a non-rigid deformation with nothing refreshed in between (the solver's situation at every step), and must equal the four terms evaluated on freshly recomputed areas, volume and pressure. Non-trivial = >= 2 face types present, pressure != 0, some bending modulus != 0 "
                "and the cell farther than one size from the origin; distinct = hash of the serialised case.",
        "min_nontrivial": 200,
        "assumptions": ["tolerances: 256 eps (1 + D/e_min) Q times the sum of absolute per-face contributions (Q = worst L^2/2A); cases "
                        "with that factor above 1e-5 are skipped as ill-conditioned (counted)",
                        "bending and angle regularisation are held to momentum/torque balance and covariance only (the statement claims "
                        "an energy derivation for pressure and tension only)"],
        "jobs": [J("C02_forces", quick={"cases": 1200, "shards": 16, "max_size": 60},
                   thorough={"cases": 25000, "shards": 16, "max_size": 100})],
    },
    "C20": {
        "rule": "rapidcheck: bounding box per axis from 1 to 40 voxels, extent an exact multiple of the voxel size or not, six position "
                "classes (origin, straddling, integer and real offsets, +-1e4 voxels), voxel size 1e-7..1e3; stored and query points from "
                "{lo, hi, one ulp inside, voxel boundaries, uniform, clusters in one voxel} plus the 8 corners; both uspg_4d and uspg_3d; in 3/5 of the cases the SAME grid object is then re-dimensioned (update_dimensions) 1-3 times to a box that slid, grew or shrank by whole and fractional voxels (along z only, rigidly, or per corner) and the whole protocol is repeated on it, as the contact models re-use their grid every iteration. "
                "Non-trivial = extent is an exact multiple of the voxel size AND a point lies on a max face; distinct = hash of the case.",
        "min_nontrivial": 500,
        "assumptions": ["reference voxel index is only compared when the point is farther than 1e-9 voxel from a voxel boundary",
                        "neighbourhood completeness is required for Euclidean distance <= voxel size (1 - 1e-9)",
                        "uspg_3d keeps the last writer per voxel (documented in its header)"],
        "jobs": [J("C20_grids", quick={"cases": 1500, "shards": 16, "max_size": 60},
                   thorough={"cases": 60000, "shards": 16, "max_size": 100})],
    },
    "C03": {
        "rule": "rapidcheck: 2-6 tiny cells of classes {epithelial, ecm, lumen, nucleus, static} whose persistent ids are, in 2/3 of the cases, larger than their positions in the list (increasing with gaps, as after removals and divisions), some with free slots made by a real "
                "edge collapse, scale 1e-5..2.5, forces re-assigned before each of 1-5 steps, momenta assigned once, 0-8 mutual "
                "couplings between distinct non-static cells (each node in at most one pair), dt / damping / density over 6 decades, "
                "1..16 threads; built for contact models 0, 1, 2 and dynamic models 0, 1. Non-trivial = (a coupled pair, or contact "
                "model 0 which has none) + a static cell + >= 2 steps; distinct = hash of the case.",
        "min_nontrivial": 200,
        "assumptions": ["uncoupled law compared at 16 eps of the magnitudes involved",
                        "coupled pair: total momentum and displacement must be those of the documented law for SOME mass between the "
                        "two node masses (the statement fixes conservation, not the mixing rule)",
                        "couplings are mutual, as the contact models' own bookkeeping intends and the quantifier says"],
        "jobs": [J("C03_integrate", v, quick={"cases": 700, "shards": 4, "max_size": 60}, thorough={"cases": 30000, "shards": 4, "max_size": 100})
                 for v in ("san", "san-dm1", "san-cm0", "san-cm2")],
    },
    "C12": {
        "rule": "rapidcheck: closed mesh (6 families + ellipsoids with a unique longest axis), placed by a random rigid motion (up to 1000 "
                "sizes from the origin, length units from nanometre-in-metres (3e-9) over um and unit scale to 1e4), random renumbering of nodes/triangles, random per-triangle winding flips, "
                "0-3 unused nodes appended; in 1/3 of the cases real edge collapses / splits then leave unused node and face slots and volume / area / centroid / bounding box are judged again on that cell; re-evaluated in a second frame (another rigid motion + renumbering + winding mix) and after a "
                "uniform scaling lambda. Non-trivial = the input contained inward-wound triangles AND D/size >= 10; distinct = hash of the case.",
        "min_nontrivial": 100,
        "assumptions": ["volume tolerance 32 F eps (D+s)^3 (error model of the origin-anchored formula), area/centroid tolerances "
                        "proportional to eps (D+s) times edge lengths; D/s <= ~2000 by construction",
                        "longest-axis clause only on ellipsoids with axis ratio >= 1.3"],
        "jobs": [J("C12_geometry", quick={"cases": 600, "shards": 16, "max_size": 60}, thorough={"cases": 20000, "shards": 16, "max_size": 100})],
    },
    "C11": {
        "claims_termination": True,  # a case that exceeds the per-case time limit is a violation ("always returns", "bounded retries")
        "rule": "rapidcheck: closed mesh with generated momenta and face labels; edge-length band placed relative to the mesh's edge "
                "length distribution in five classes (all edges inside, only too long, too short, both, heavy) plus (1/10) exact ties: boxes with integer-times-power-of-two coordinates and l_max or l_min put exactly on one of their edge lengths ('longer than' and 'shorter than' are strict); 1-4 passes with swap on/off "
                "and displacements (noise, stretch, strong compression producing slivers) between passes. The refiner's operation trace "
                "(guarded hook H4) is replayed on a shadow mesh and the cell must equal the shadow. Non-trivial = a pass that performed "
                ">= 1 split and >= 1 collapse, or a pass on an independently verified conforming mesh; distinct = hash of the case.",
        "min_nontrivial": 100,
        "assumptions": ["hook H4 reports (kind, edge nodes, their positions at operation time, new node id); the shadow verifies the logged "
                        "positions against its own, so the trace cannot misreport geometry",
                        "labels of faces created by an edge swap are not constrained (the statement only covers splits)",
                        "termination = every generated pass returned or threw within the per-case watchdog (600 s); a pass may fail with mesh_integrity_exception"],
        "jobs": [J("C11_refine", quick={"cases": 250, "shards": 16, "max_size": 60}, thorough={"cases": 10000, "shards": 16, "max_size": 100}),
                 J("C11_refine", variant="san-dm1", quick={"cases": 100, "shards": 4, "max_size": 60}, thorough={"cases": 3000, "shards": 8, "max_size": 100})],
    },
    "C16": {
        "rule": "rapidcheck: populations of 1-8 cells of the five classes, 4-700 triangles (1/120: a tissue of more than 65536 faces in one file, 13-14 cells of 5120 faces or one of 81920), coordinate scales 1e-9..1e6 with offsets up to "
                "1e4 sizes, exact and negative zeros and the tiny values of either sign that rounding leaves on a coordinate plane (1e-17 .. 1e-200, subnormal 1e-310: three-digit exponents in the %.4e rendering), type ids 0..12; cells optionally pre-processed by 1-8 real split/collapse operations "
                "so that they hold unused slots; three writer entry points (write_cell_data_file(cells), write(cell+face files), "
                "vector<mesh> overload); the cell type objects are pooled for the life of the process and re-parameterised per case, and before the judged write an earlier tissue is written with the same type objects carrying other ids (the bit of process history a parameter screening creates is part of the case). Non-trivial = >= 2 cell classes AND at least one cell the writer had to compact; distinct = hash of the case.",
        "min_nontrivial": 100,
        "assumptions": ["'equal to the written precision' is decided exactly: the value read back must equal strtod of the harness's own %.4e rendering",
                        "cell types are only round-tripped through mesh_writer::write (the only entry point that writes the type array)"],
        "jobs": [J("C16_roundtrip", quick={"cases": 150, "shards": 16, "max_size": 60}, thorough={"cases": 5000, "shards": 16, "max_size": 100},
                   env={"VERIF_TMP": "/verif/build/run"})],
    },
    "C18": {
        "rule": "rapidcheck: parameter files with 1-5 cell types x 1-4 face types, all ~30 tags with pairwise distinct values over 24 decades plus 1/10 extreme magnitudes (subnormal 3.1e-310, 4.4e-200, 2.5e300), "
                "six notations (%.17g, %e, %g, %.3E, leading +, fixed), INF/inf/Inf where documented, shuffled tag order, comments and "
                "padding; 5/13 of the cases are read back field by field, the others carry one mutation (omitted tag, negated or "
                "out-of-order value, boundary value 0 / S == dt) that must be rejected or accepted as the reader announces. Non-trivial = "
                "read-back with >= 2 cell types and an INF, or any mutation case; distinct = hash of the case.",
        "min_nontrivial": 200,
        "assumptions": ["sign constraints are those announced by the reader's messages (the docs state none); damping = 0 is not judged "
                        "because message ('strictly positive') and code (rejects only negatives) disagree",
                        "the 'values govern the run' clause is decided by the solver-level engines that feed their parameters through XML: C19's engine (time step, duration, sampling period govern clock and file cadence) and C06's engine (edge length and the two cut-offs, adhesion above or below repulsion, govern which node-face pairs interact); densities, moduli and tensions reach the forces through the structures whose fields the read-back compares and C02/C03/C04 judge"],
        "jobs": [J("C18_params", quick={"cases": 600, "shards": 8, "max_size": 60}, thorough={"cases": 30000, "shards": 16, "max_size": 100},
                   env={"VERIF_TMP": "/verif/build/run"}),
                 # end-to-end clause: dt / duration / sampling period written in XML, parsed by the real reader, must govern a real run
                 J("C19_outputs", quick={"cases": 12, "shards": 8, "max_size": 40}, thorough={"cases": 200, "shards": 8, "max_size": 60},
                   env={"VERIF_TMP": "/verif/build/run"}, prefix=True),
                 # end-to-end clause: edge length and the two cut-offs written in XML, parsed by the real reader, must set the interaction range
                 # of the contact phase (C06's engine routes its parameters through a parameter file in 3/5 of its cases)
                 J("C06_broadphase", quick={"cases": 12, "shards": 4, "max_size": 60}, thorough={"cases": 300, "shards": 5, "max_size": 100},
                   env={"VERIF_TMP": "/verif/build/run"}, prefix=True)],
    },
    "C06": {
        "rule": "rapidcheck: tissues of 2-7 cells (chain, cluster, cells inside an ECM shell, nucleus inside a cell, apart) of mixed classes, persistent ids larger than the list positions in 2/3 of the tissues, "
                "icosphere level 1-2, um / unit / x12 scale, placed up to 3000 sizes from the origin and (1/2 of the cases) a further 1e4-1e7 edge lengths away; l_min, repulsion and adhesion "
                "cut-offs independently log-uniform in [0.05, 3] edge lengths (in 3/5 of the cases written into a parameter file and read back through the real XML reader); node normals either in the iteration-0 state or computed; in half of the tissues every cell first undergoes real edge collapses / splits that leave unused node and face slots; for contact "
                "models 0, 1, 2. Non-trivial = a node-face pair within the cut-off (independent kernel), tissue spanning >= 27 voxels, "
                "and a contact force or a pair whose node and face lie in different voxels; distinct = hash of the case.",
        "min_nontrivial": 30,
        "assumptions": ["single thread (couplings are order dependent by design)",
                        "the all-pairs reference calls the real narrow-phase entry (resolve_contact / apply_contact_forces) of a second model "
                        "instance in descending global face id, the order in which the voxel lists yield faces"],
        "jobs": [J("C06_broadphase", v, quick={"cases": 20, "shards": 5, "max_size": 60}, thorough={"cases": 600, "shards": 5, "max_size": 100}, env={"VERIF_TMP": "/verif/build/run"})
                 for v in ("san", "san-cm0", "san-cm2")],
    },
    "C07": {
        "rule": "rapidcheck, two subs per contact model. 'tissue': tissues as in C06 (level 1), zero initial forces; 1/3 of the tissues are distorted by an affine map (stretch up to 3, squeeze to 0.35, shear up to 1.2: obtuse and needle-shaped triangles); contacts are computed by 1, 2, 3 or 8 threads; in half of the tissues every cell first undergoes real edge collapses / splits that leave unused node and face slots; half of the cases then remove a generated subset of the cells the way the solver does (down to one survivor in 2/3 of them) and run the SAME model instance again, all whole-tissue clauses re-checked; 'pair': one probe node "
                "(apex of a thin tetrahedron) at signed depth in (-cutoff, cutoff) over the centroid region of one face of a tetrahedron "
                "60 cut-offs wide, for all 25 ordered class pairs, both sides, both node-normal states, repulsion strength over 5 decades, "
                "random rigid placement and scale. Non-trivial = a case in which a contact force or coupling was created; distinct = hash of the case.",
        "min_nontrivial": 100,
        "assumptions": ["a repulsion force is *required* only where the model's rules leave no doubt (normal pre-filter passes, depth below the "
                        "model's repulsion range, k_rep > 0); the direction / reciprocity / weight clauses are asserted whenever a force is applied",
                        "range clause uses max(cut-offs) because model 1 and 2 apply repulsion up to the larger of the two"],
        "jobs": [J("C07_contact", v, quick={"cases": 150, "shards": 5, "max_size": 60}, thorough={"cases": 6000, "shards": 5, "max_size": 100})
                 for v in ("san", "san-cm0", "san-cm2")],
    },
    "C08": {
        "rule": "rapidcheck stateful histories on a real solver: tissues of 2-7 level-1 cells in contact (3/4 all-epithelial, 1/4 mixed classes), "
                "1-4 face types per cell type and, in 2/3 of the cases, a second epithelial cell type (same global id, listed after the first, 1-4 face types, used by every other epithelial cell), 1-4 threads; the generated cell types and the tissue (as an input mesh) first go through the real simulation_initializer, which must accept 3+ face types and may refuse fewer; commands Step(1|2|5 iterations), Shrink(k) (cell k scaled to 0.37 of its volume -> removed at the end "
                "of the next iteration), Inflate(k) (scaled above its division volume -> divided at the next multiple-of-5 iteration); invariants "
                "after every iteration. Non-trivial = history containing a removal from the middle of the list followed by further iterations "
                "AND at least one division; distinct = hash of the case.",
        "min_nontrivial": 10,
        "assumptions": ["couplings are only required to be valid after iterations that did not change the population (the next contact phase rebuilds "
                        "them before any use); stale use inside an iteration is caught by ASan / _GLIBCXX_ASSERTIONS at the point of use",
                        "a history ends when the solver reports an instability by exception (e.g. mesh refinement failed)",
                        "a parameter set the real start-up validation refuses ends the case (counted); whatever it admits must run without an out-of-range face type"],
        "jobs": [J("C08_population", v, quick={"cases": 40, "shards": 5, "max_size": 40}, thorough={"cases": 1500, "shards": 5, "max_size": 60},
                   env={"VERIF_TMP": "/verif/build/run"}) for v in ("san", "san-cm0", "san-cm2")],
    },
    "C04": {
        "rule": "rapidcheck, two subs. 'direct': one generated cell of each class (placement up to 1000 sizes, um/unit scale), bulk modulus, "
                "pressure cap (finite/INF), growth rate (negative/zero/positive, with or without sigma), division volume (finite/INF, with or "
                "without sigma, sigma up to the mean so that negative division volumes are drawn), minimum volume and target volume classes; 60 seeded draws of the random properties, then one public "
                "apply_internal_forces(dt). 'history': a real solver over 2-5 non-interacting cells with generated growth rates, the harness "
                "scaling cells below / above the minimum volume between iterations. Non-trivial = (direct) a clamp at V_min, a capped pressure "
                "or a cell ready to divide; (history) a removal plus a clamp or a finite pressure cap; distinct = hash of the case.",
        "min_nontrivial": 50,
        "assumptions": ["pressure compared with the independent enclosed volume at K * 32 F eps (1 + D/s)^3 (error model of the cached volume)",
                        "history sub: removal is required below 0.5 V_min and forbidden above 2 V_min of the volume before the iteration "
                        "(remeshing inside the iteration may change the volume); pressure there uses the volume the cell cached at force time",
                        "random draws are reproduced through hook H2 (seed source)"],
        "jobs": [J("C04_cellcycle", quick={"cases": 250, "shards": 8, "max_size": 40}, thorough={"cases": 8000, "shards": 16, "max_size": 60},
                   env={"VERIF_TMP": "/verif/build/run"})],
    },
    "C09": {
        "rule": "rapidcheck, two subs. 'single': divide_cell on one mother (>= 60 triangles: deformed icospheres, refined solids, prisms, "
                "bipyramids; um/unit scale; placement up to 100 sizes) with a forced axis of class {random, exactly +-x/+-y/+-z, within "
                "1e-9 of an axis, plane through a mesh node, default longest axis}, l_min inside the band the mother's edges satisfy; the mother's target volume is 0.6-2.5 of its volume (stretched, relaxed, compressed) and the type's minimum volume 0-0.7 of it (half of the target may lie below the minimum volume). 1/8 of the mothers are instead regular octahedra / icosahedra cut along a body diagonal with l_min of the order of their edges (daughters that need no collapse; the volume clause is not applied where l_max exceeds the mother's diameter). "
                "'population': cell_divider::run on 1-10 cells (epithelial / lumen / static) with none, some, most or all eligible, 1-8 "
                "threads. Non-trivial = at least one successful division; distinct = hash of the case.",
        "min_nontrivial": 30,
        "assumptions": ["success is not required (the statement allows a clean failure): success rates per axis class are reported",
                        "volume tolerance tau = 1.2 l_max / diameter clipped to [0.05, 0.6] (measured defects: median 5 %, max 26 % on 80-320 "
                        "triangle mothers); sidedness tolerance l_max",
                        "the mother is freshly initialised (no unused slots), so 'mother unchanged' is a bitwise comparison"],
        "jobs": [J("C09_division", quick={"cases": 40, "shards": 16, "max_size": 40}, thorough={"cases": 2500, "shards": 16, "max_size": 60})],
    },
    "C13": {
        "claims_termination": True,  # a case that exceeds the per-case time limit is a violation ("always returns", "bounded retries")
        "rule": "rapidcheck, three subs. 'reconstruct': closed polyhedra with polygonal faces (box, n-prism, bipyramid, icosphere, ellipsoid, "
                "non-convex L-prism, triangulated variants; 1/4 are drawn from the sharp / re-entrant ones - triangular prism, 3- and 4-sided bipyramid, L-prism - where the ball pivoting leaves several holes to fill), per-face winding none / some / all reversed, rigid placement and um..x250 scale, "
                "l_min / diameter in [0.04, 0.16], triangulation on (4/5) or off, written to an input file and loaded through "
                "simulation_initializer with seeded RNGs (hook H2). 'coarse': the hostile corner - L-prisms, thin plates, flat or needle-like bipyramids and sharp wedges (polygon angles down to 5 degrees) with l_min between 0.25 and 1.1 of the smallest feature, so that the bounded retries are used up; only 'a valid closed surface or a clean failure' is judged there (a flat double-sided sheet for an input thinner than l_min has no inside: counted, orientation not judged). 'poisson': the sampling alone, pairwise spacing and on-surface "
                "distance by brute force. 'holes': ball-pivoting hole filling driven through the bpa_tester friend on icospheres with 1-8 "
                "removed triangles / quads. Non-trivial = a successful reconstruction / a cloud of >= 10 samples / a filled hole; distinct = hash of the case.",
        "min_nontrivial": 30,
        "assumptions": ["volume tolerance 0.03 + 0.6 l_max/diameter (calibrated: measured maximum 0.25 l_max/diameter), bounding box and "
                        "node-to-surface tolerance l_max",
                        "outcome may be an exception derived from std::exception after the bounded retries, except with the triangulation disabled on "
                        "a triangulated closed input",
                        "polygons are planar and convex (the non-convex L-prism is built from convex faces)"],
        "jobs": [J("C13_reconstruct", subs=["reconstruct"], quick={"cases": 12, "shards": 12, "max_size": 40}, thorough={"cases": 600, "shards": 16, "max_size": 60},
                   env={"VERIF_TMP": "/verif/build/run"}, threads=2),
                 J("C13_reconstruct", subs=["coarse"], quick={"cases": 40, "shards": 4, "max_size": 40}, thorough={"cases": 2000, "shards": 8, "max_size": 60},
                   env={"VERIF_TMP": "/verif/build/run"}),
                 J("C13_reconstruct", subs=["poisson"], quick={"cases": 25, "shards": 2, "max_size": 40}, thorough={"cases": 500, "shards": 8, "max_size": 60},
                   env={"VERIF_TMP": "/verif/build/run"}, threads=4),
                 J("C13_reconstruct", subs=["holes"], quick={"cases": 400, "shards": 2, "max_size": 40}, thorough={"cases": 20000, "shards": 4, "max_size": 60},
                   env={"VERIF_TMP": "/verif/build/run"})],
    },
    "C19": {
        "rule": "rapidcheck: (dt, S, T) rendered in an XML file and read by the real reader, ratio classes {S == dt, S = k dt, irrational, S "
                "slightly above dt, S = 10..60 dt}, 1-130 iterations, 1-4 non-interacting cells (epithelial, lumen or static: all of them grow a little at every iteration, so the rows of two records differ), 0-4 forced removals / divisions at generated "
                "iterations, statistics to file or string, solver stepped with run_iteration() (3/4) or run() (1/4), 1-4 threads. "
                "Non-trivial = >= 3 file pairs and (a population change between two recorded iterations, or more than 50 iterations, or run()); "
                "distinct = hash of the case.",
        "min_nontrivial": 20,
        "assumptions": ["'K within one of T/S+1' is read on integers: |K - (floor(T/S)+1)| <= 1",
                        "rows of a recorded iteration = cells alive after the iteration plus the cells removed at its end (the record is written "
                        "before the removal); values are compared for the survivors",
                        "the cells listed in a mesh file are those alive at the start of the iteration that wrote it"],
        "jobs": [J("C19_outputs", quick={"cases": 20, "shards": 16, "max_size": 40}, thorough={"cases": 1000, "shards": 16, "max_size": 60},
                   env={"VERIF_TMP": "/verif/build/run"})],
    },
    "C14": {
        "rule": "rapidcheck: tissues of 2-5 level-1 cells (chain / cluster / inside an ECM shell / nucleus in a cell / apart; all-epithelial or "
                "mixed classes) a few sizes from the origin, every cell turned about its own centre by a generated rotation; translation classes {0.4 size, 10, 100, 1000 sizes, across the origin, integer "
                "multiples of the contact-grid voxel}; 10-45 iterations, growth on/off, dt in {5e-4, 1e-3, 2e-3}; four real solvers in "
                "lock-step (reference, translated, two noise runs), 1 thread. Sub 'division': one division (real cell_divider::divide_cell, "
                "identical sampling seeds through hook H2) of a cell in the state the solver divides cells in - caches filled by the previous force "
                "computation, nodes swollen / stretched by 0-6 % since - against the division of its translated copy (0.4 .. 1000 sizes, across the "
                "origin) and of two noise copies: same outcome, same volume split (2 % or 20x the noise response), daughters at the translated "
                "positions (5 % of the size). Non-trivial = more than one cell or couplings (lockstep) / a completed pair of divisions (division), and "
                "a translation other than the 0.4-size class; distinct = hash of the case.",
        "min_nontrivial": 10,
        "assumptions": ["position tolerance = max(1e-12 s, 1e4 x the response of the reference run to representation-error-sized coordinate "
                        "noise, 512 F eps (1 + D/s)^3 s per iteration); a case whose noise response exceeds 1e-9 s is inconclusive",
                        "a divergence is reported only if neither noise run diverges and no decision quantity of the reference state sits on its threshold: edge "
                        "lengths / triangle scores within 1e-6, node-face distances vs the cut-offs, node-normal dot products vs cos 90 / cos 45 and curvature vs its "
                        "limit within 1e-9 (otherwise counted as tie_inconclusive)"],
        "jobs": [J("C14_translate", subs=["lockstep"], quick={"cases": 6, "shards": 12, "max_size": 40}, thorough={"cases": 300, "shards": 16, "max_size": 60},
                   env={"VERIF_TMP": "/verif/build/run"}),
                 J("C14_translate", subs=["lockstep"], variant="san-dm1", quick={"cases": 6, "shards": 4, "max_size": 40}, thorough={"cases": 150, "shards": 8, "max_size": 60},
                   env={"VERIF_TMP": "/verif/build/run"}),
                 J("C14_translate", subs=["division"], quick={"cases": 15, "shards": 8, "max_size": 40}, thorough={"cases": 1200, "shards": 16, "max_size": 60},
                   env={"VERIF_TMP": "/verif/build/run"})],
    },
    "C15": {
        "rule": "rapidcheck, three subs. 'threads': 2-7 non-interacting cells of two cell types (epithelial with a generated bending modulus 0 / 0.02 / 0.2, lumen without; either class first in the list), every run in a freshly forked process so that no process-lifetime state (function-local statics, caches) can couple two runs (growth rates incl. negative, l_min in {0.5, 0.3, 0.2} edge so "
                "that remeshing happens), 3-14 iterations, run with 1 thread twice (repeatability) and with 2-3 thread counts from "
                "{2,3,5,8,16} under a generated sleep plan (0-1500 us at the hook-H3 scheduling points): digests of positions, momenta, "
                "connectivity, ids and statistics (wall-clock column removed) must be bit-identical. 'divide': cell_divider::run on 2-10 "
                "cells with a generated eligible subset, 2-16 threads, sleep plans, the resize window held open 0.2-5 ms: no READ of the "
                "population list may overlap a RESIZE by another thread; population size / ids / untouched cells / validity checked; 1/5 of the ready cells fail their first attempt cleanly (cutting plane through one of their nodes) at a generated list position and are retried by a second call, after which ids must still be distinct. "
                "'exceptions': parallel_exception_handler with 0-200 elements and 0-5 throwing positions of two exception classes, "
                "refine_meshes with collapsing cells and mesh_writer::write with NaN coordinates at generated list positions, 1-16 threads. "
                "Non-trivial = remeshing happened and >= 2 thread counts compared / >= 2 simultaneous divisions / >= 2 throwing elements "
                "(or a failing real user); distinct = hash of the case.",
        "min_nontrivial": 20,
        "assumptions": ["interleavings are sampled through generated sleep plans and OS scheduling, not enumerated",
                        "the READ / RESIZE events are the guarded list-access hooks in cell_divider::run (H3)",
                        "interacting tissues may legitimately depend on the schedule (forces are accumulated without ordering) and are not compared"],
        "jobs": [J("C15_threads", subs=["threads"], quick={"cases": 6, "shards": 4, "max_size": 40}, thorough={"cases": 300, "shards": 4, "max_size": 60},
                   env={"VERIF_TMP": "/verif/build/run"}, threads=4),
                 J("C15_threads", subs=["divide"], quick={"cases": 15, "shards": 4, "max_size": 40}, thorough={"cases": 600, "shards": 4, "max_size": 60},
                   env={"VERIF_TMP": "/verif/build/run"}, threads=4),
                 J("C15_threads", subs=["exceptions"], quick={"cases": 150, "shards": 2, "max_size": 40}, thorough={"cases": 6000, "shards": 4, "max_size": 60},
                   env={"VERIF_TMP": "/verif/build/run"}, threads=4)],
    },
    "C10": {
        "rule": "rapidcheck scenarios executed in child processes of the sanitized binary: tissues of 2-6 cells (five classes, radii 0.6-1.2 so "
                "that small cells fall below the minimum volume and large epithelial cells exceed the division volume at once), um or unit "
                "scale with similarity-scaled parameters, initial triangulation on (1/4) or off, l_min / cut-off / sampling-period "
                "classes, 6-40 iterations, 1-16 threads; parameter file and mesh file are written to disk and run through the "
                "main-equivalent (initializer -> solver -> run -> destructors). Each scenario runs once with the generated thread count and "
                "four times single-threaded with heap fill bytes 0x00/0x55/0xBE/0xFF whose output digests must agree. Non-trivial = the "
                "run completed and the population changed (division and/or removal); distinct = hash of the scenario. The regression replays "
                "of every memory-safety finding (other engines' case files) are part of this check.",
        "min_nontrivial": 5,
        "assumptions": ["a verdict is any ASan / UBSan / _GLIBCXX_ASSERTIONS report, signal or terminate in a child; an exception reported the way "
                        "main() reports it is fine", "leaks are not part of the property (cell <-> face shared_ptr cycle by design)",
                        "schedule-dependent memory errors are sampled, not enumerated; stack / sub-object uninitialised reads are only covered "
                        "by the valgrind pass of the thorough tier"],
        "jobs": [J("C10_pipeline", quick={"cases": 3, "shards": 4, "max_size": 40}, thorough={"cases": 60, "shards": 6, "max_size": 60},
                   env={"VERIF_TMP": "/verif/build/run"}),
                 J("C10_pipeline", variant="san-cm0", quick={"cases": 2, "shards": 1, "max_size": 40}, thorough={"cases": 30, "shards": 3, "max_size": 60},
                   env={"VERIF_TMP": "/verif/build/run"}),
                 J("C10_pipeline", variant="san-cm2", quick={"cases": 2, "shards": 1, "max_size": 40}, thorough={"cases": 30, "shards": 3, "max_size": 60},
                   env={"VERIF_TMP": "/verif/build/run"}),
                 J("C10_pipeline", variant="san-dm1", quick={"cases": 2, "shards": 1, "max_size": 40}, thorough={"cases": 30, "shards": 3, "max_size": 60},
                   env={"VERIF_TMP": "/verif/build/run"}),
                 J("C10_pipeline", variant="plain", tiers=("thorough",), thorough={"cases": 3, "shards": 6, "max_size": 30},
                   env={"VERIF_TMP": "/verif/build/run", "VERIF_VALGRIND": "1"})],
    },
    "C17": {
        "level": "fault_enumeration",
        "rule": "(b) exhaustive single-fault enumeration on valid templates (quick: 2 mesh + 1 parameter template; thorough: 3 + 3, including a "
                "polygonal cube that goes through the reconstruction): every token deleted / duplicated / replaced by each of 17 hostile "
                "values (incl. indices whose triple wraps 2^32), every line replaced by 7 inconsistent count lines, every section removed / swapped, truncation at (every) byte "
                "offset; every XML element removed / duplicated / emptied / self-closed / replaced by 24 hostile texts, every tag deleted, "
                "every section removed or emptied; every numerical parameter additionally replaced by the 24 hostile texts with the initial triangulation switched on (polygonal cube), so that hostile edge lengths and cut-offs reach the sampling grids and the ball pivoting; each mutant goes through the real start-up in the sanitized child; an input that start-up accepts must have been turned into cells that are closed surfaces with consistent bookkeeping (independent topology oracle, combinatorial clauses). (a) libFuzzer (clang, "
                "ASan+UBSan) on three targets with semantic oracles, half of the workers from the committed seeds and half from an empty "
                "corpus. Non-trivial = a mutant that gets past the first syntactic check (completes, or fails with anything but the "
                "header / file-not-found message), or a coverage-increasing fuzz input; distinct = mutation description / corpus file.",
        "min_nontrivial": 500,
        "assumptions": ["outcome must be completion or an exception derived from std::exception; signal, terminate, sanitizer report, RSS above 3 GB "
                        "or a hang reproduced 3x (60 s) is a violation", "libFuzzer timeout-/oom-/slow-unit- artifacts are load noise unless they "
                        "reproduce 3x stand-alone", "inputs whose extent / l_min ratio exceeds ~150 with the reconstruction enabled are excluded by "
                        "construction (known finding KF1, counted) and replayed separately"],
        "jobs": [{"custom": _c17_faults, "need_variants": ["san"], "engine": "C10_pipeline", "variant": "san", "quick": {}, "thorough": {}},
                 {"custom": _c17_fuzz, "need_variants": ["fuzz"], "quick": {}, "thorough": {}, "fuzz_seconds": {"quick": 40, "thorough": 600}, "fuzz_workers": 5}],
    },
}
