"""Which engines decide which property, with their quick / thorough budgets."""


def J(engine, variant="san", quick=None, thorough=None, **kw):
    d = {"engine": engine, "variant": variant, "quick": quick or {}, "thorough": thorough or {}}
    d.update(kw)
    return d


PROPERTIES = {
    "C05": {
        "rule": "rapidcheck: triangle + query point constructed per Voronoi region (3 vertices, 3 edges, interior), aspect "
                "ratios to 1:1000, scale 1e-6..1e3, placed by a random rigid motion up to 1000 sizes from the origin; oracle = "
                "independent feature-brute-force closest point, |p-q|^2 vs returned d2, rigid-motion invariance. A case is "
                "non-trivial when the target region is not vertex A and |a| > 10 triangle sizes; distinct = hash of the "
                "serialised coordinates.",
        "min_nontrivial": 1000,
        "assumptions": ["triangle non-degenerate: area >= 1e-7 * (longest edge)^2",
                        "tolerances derived from eps * (|coordinates| + size) with a conditioning term size^2/area"],
        "jobs": [J("C05_kernel", quick={"cases": 12000, "shards": 16}, thorough={"cases": 600000, "shards": 16})],
    },
}
