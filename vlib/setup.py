"""MANIFEST.setup_cmd: warm the build cache (all variants, all engines) from files on disk only."""
import sys
from concurrent.futures import ThreadPoolExecutor

from . import build
from .registry import PROPERTIES


def main():
    need = sorted({(j["engine"], j["variant"]) for p in PROPERTIES.values() for j in p["jobs"] if j.get("engine")})
    variants = sorted({v for _, v in need} | {v for p in PROPERTIES.values() for j in p["jobs"] for v in j.get("need_variants", [])})
    for v in variants:
        build.ensure_lib(v)
    with ThreadPoolExecutor(8) as ex:
        list(ex.map(lambda ev: build.ensure_engine(ev[0], ev[1], extra_flags=['-DVERIF_VARIANT="%s"' % ev[1]]), need))
    from .c17_fuzz import ensure_targets
    ensure_targets()
    print("setup ok: %d variants, %d engines" % (len(variants), len(need)))


if __name__ == "__main__":
    sys.exit(main())
