"""C17 (a): coverage-guided fuzzing (libFuzzer, clang, ASan+UBSan) of the two file readers and of the whole start-up.

Targets (fuzz/*.cpp): fuzz_mesh (bytes -> mesh_reader), fuzz_xml (bytes -> parameter_reader), fuzz_startup (bytes decoded into
edits of valid templates -> simulation_initializer). Each target carries a semantic oracle besides the sanitizers.
Only crash-* artifacts that reproduce stand-alone are violations; timeout-/oom-/slow-unit- artifacts are load noise unless
they reproduce 3x stand-alone with a 60 s limit.
"""
import glob
import hashlib
import os
import re
import shutil
import subprocess
import time
from concurrent.futures import ThreadPoolExecutor

from . import build

TARGETS = {
    "fuzz_mesh": {"corpus": "corpus_mesh", "dict": "mesh.dict"},
    "fuzz_xml": {"corpus": "corpus_xml", "dict": "xml.dict"},
    "fuzz_startup": {"corpus": "corpus_startup", "dict": None},
}


def ensure_targets():
    lib = build.ensure_lib("fuzz")
    out = {}
    v = build.VARIANTS["fuzz"]
    for t in TARGETS:
        src = os.path.join(build.VERIF, "fuzz", t + ".cpp")
        with build.Lock("fuzz-" + t):
            key = build._sha([src] + build.repo_headers(), lib)
            exe = os.path.join(build.BUILD, "fuzz", "%s.%s.exe" % (t, key))
            if not os.path.exists(exe):
                for old in glob.glob(os.path.join(build.BUILD, "fuzz", t + ".*.exe")):
                    os.unlink(old)
                flags = [f for f in v["flags"] if not f.startswith("-fsanitize=")]
                cmd = (["clang++"] + flags + ["-fsanitize=fuzzer,address,undefined"] + build.inc_flags() +
                       [src, lib, "-L/usr/lib/gcc/x86_64-linux-gnu/12", "-lgomp", "-o", exe + ".tmp"])
                rc, o = build._run(cmd)
                if rc != 0:
                    raise SystemExit("fuzz target build failed: %s\n%s" % (t, o[-3000:]))
                os.replace(exe + ".tmp", exe)
            out[t] = exe
    return out


def reproduce(exe, artifact, timeout=90):
    env = dict(os.environ)
    env["ASAN_OPTIONS"] = "detect_leaks=0"
    # scratch files of the target go to the build area, never next to a committed regression input (a crashing target leaves them behind)
    tmp = os.path.join(build.BUILD, "run", "fuzz_replay")
    os.makedirs(tmp, exist_ok=True)
    env["VERIF_FUZZ_TMP"] = tmp
    try:
        p = subprocess.run([exe, artifact, "-timeout=60", "-rss_limit_mb=2048", "-detect_leaks=0"], stdout=subprocess.PIPE, stderr=subprocess.PIPE, timeout=timeout, env=env)
    except subprocess.TimeoutExpired:
        return "timeout", ""
    err = p.stderr.decode("utf-8", "replace")
    if p.returncode == 0:
        return "ok", ""
    keep = [l for l in err.splitlines() if "ERROR" in l or "SUMMARY" in l or "runtime error" in l or "deadly signal" in l]
    return "crash", " | ".join(keep[:3])[:400]


def run(tier, seed, engines, job):
    t0 = time.time()
    exes = ensure_targets()
    budget = job.get("fuzz_seconds", {}).get(tier, 45)
    workers_per_target = job.get("fuzz_workers", 5)
    root = os.path.join(build.BUILD, "run", "C17_fuzz")
    shutil.rmtree(root, ignore_errors=True)
    os.makedirs(root)
    tasks = []
    for t, cfg in TARGETS.items():
        for w in range(workers_per_target):
            d = os.path.join(root, "%s_%d" % (t, w))
            corp = os.path.join(d, "corpus")
            os.makedirs(corp)
            # half of the workers start from the committed seeds, the others from an empty corpus
            if w % 2 == 0:
                for f in glob.glob(os.path.join(build.VERIF, "fuzz", cfg["corpus"], "*")):
                    shutil.copy(f, corp)
            cmd = [exes[t], corp, "-max_len=65536", "-timeout=25", "-rss_limit_mb=2048", "-malloc_limit_mb=1024", "-detect_leaks=0",
                   "-max_total_time=%d" % budget, "-seed=%d" % (seed * 100 + w + 1), "-print_final_stats=1", "-artifact_prefix=%s/" % d]
            if cfg["dict"]:
                cmd.append("-dict=" + os.path.join(build.VERIF, "fuzz", cfg["dict"]))
            tasks.append((t, w, d, cmd))

    def go(task):
        t, w, d, cmd = task
        env = dict(os.environ)
        env["ASAN_OPTIONS"] = "detect_leaks=0"
        env["VERIF_FUZZ_TMP"] = d
        env["OMP_NUM_THREADS"] = "1"
        try:
            p = subprocess.run(cmd, stdout=subprocess.PIPE, stderr=subprocess.PIPE, env=env, timeout=budget + 120, cwd=d)
            err = p.stderr.decode("utf-8", "replace")
        except subprocess.TimeoutExpired as e:
            err = (e.stderr or b"").decode("utf-8", "replace")
        return task, err

    with ThreadPoolExecutor(len(tasks)) as ex:
        results = list(ex.map(go, tasks))
    counters = {}
    violations = []
    notes = []
    samples = []
    nontrivial = set()
    evaluations = 0
    os.makedirs(os.path.join(build.BUILD, "violations", "C17"), exist_ok=True)
    seen_sigs = set()
    for (t, w, d, cmd), err in results:
        m = re.search(r"stat::number_of_executed_units:\s+(\d+)", err)
        n = int(m.group(1)) if m else 0
        evaluations += n
        counters["%s executions" % t] = counters.get("%s executions" % t, 0) + n
        m = re.search(r"stat::new_units_added:\s+(\d+)", err)
        counters["%s coverage-increasing inputs" % t] = counters.get("%s coverage-increasing inputs" % t, 0) + (int(m.group(1)) if m else 0)
        for f in glob.glob(os.path.join(d, "corpus", "*")):
            nontrivial.add(t + "/" + os.path.basename(f))
        for art in glob.glob(os.path.join(d, "crash-*")) + glob.glob(os.path.join(d, "timeout-*")) + glob.glob(os.path.join(d, "oom-*")):
            kind = os.path.basename(art).split("-")[0]
            tries = 1 if kind == "crash" else 3
            res = [reproduce(exes[t], art) for _ in range(tries)]
            bad = [r for r in res if r[0] in ("crash", "timeout")]
            if len(bad) == tries:
                sig = t + re.sub(r"0x[0-9a-f]+|==\d+==|pid \d+", "", bad[0][1])[:160]
                if sig in seen_sigs:
                    continue
                seen_sigs.add(sig)
                data = open(art, "rb").read()
                keep = os.path.join(build.BUILD, "violations", "C17", "%s.%s-%s" % (t, kind, hashlib.sha1(data).hexdigest()[:12]))
                shutil.copy(art, keep)
                violations.append((keep, "%s: %s reproduces stand-alone: %s" % (t, kind, bad[0][1])))
            else:
                notes.append("%s artifact %s did not reproduce (load noise)" % (t, os.path.basename(art)))
    for t, cfg in TARGETS.items():
        c = glob.glob(os.path.join(root, t + "_0", "corpus", "*"))
        if c:
            big = sorted(c, key=os.path.getsize)[len(c) // 2]
            samples.append("%s corpus input (%d bytes): %r" % (t, os.path.getsize(big), open(big, "rb").read(120)))
    # committed crash regression inputs
    for art in sorted(glob.glob(os.path.join(build.VERIF, "replays", "C17", "fuzz", "*"))):
        t = os.path.basename(art).split(".")[0]
        if t in exes:
            st, detail = reproduce(exes[t], art)
            counters["fuzz regression inputs"] = counters.get("fuzz regression inputs", 0) + 1
            if st != "ok":
                violations.append((art, "regression input %s: %s %s" % (os.path.basename(art), st, detail)))
    shutil.rmtree(root, ignore_errors=True)
    return {"evaluations": evaluations, "nontrivial": nontrivial, "counters": counters, "samples": samples, "notes": notes, "violations": violations,
            "wall": time.time() - t0}


def replay(path):
    t = os.path.basename(path).split(".")[0]
    exes = ensure_targets()
    if t not in exes:
        return "error", "unknown fuzz target for " + path
    return reproduce(exes[t], path)
