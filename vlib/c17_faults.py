"""C17 (b): deterministic fault enumeration on valid start-up inputs.

For every template (mesh files and parameter files) every token is deleted, duplicated and replaced by each of a fixed
list of hostile values; every section is removed; the file is truncated at byte offsets. Each mutant is offered to the
real start-up path (simulation_initializer) inside the sanitized child binary (harness/C10_pipeline --startup-batch).
Verdict per mutant: 'completed' or 'exception <type derived from std::exception>' are fine; a dead child (signal,
sanitizer report, terminate, RSS limit) or a reproducible hang is a violation.
"""
import os
import re
import shutil
import subprocess
import time
from concurrent.futures import ThreadPoolExecutor

from . import build

HOSTILE = ["-1", "0", "2147483648", "1e999", "nan", "abc", "", "4294967296", "1e-400", "2147483647", "999999", "7", "1e308", "4e9", "1.5",
           # indices whose product with a small stride wraps a 32-bit counter: ceil(2^32/3) and its neighbour (3 coordinates per point)
           "1431655765", "1431655766"]

VTK_TETRA = """# vtk DataFile Version 4.2
vtk output
ASCII
DATASET UNSTRUCTURED_GRID
POINTS 4 float
1 1 1 1 -1 -1 -1 1 -1
-1 -1 1

CELLS 1 18
17 4 3 0 2 1 3 0 1 3 3 0 3 2 3 1 2 3

CELL_TYPES 1
42

CELL_DATA 1
FIELD FieldData 1
cell_type_id 1 1 int
0
"""

VTK_TWO_CUBES = """# vtk DataFile Version 4.2
vtk output
ASCII
DATASET UNSTRUCTURED_GRID

POINTS 16 float
8e-06 0 0 1.5e-05 0 0 1.5e-05 0 7e-06
8e-06 0 7e-06 8e-06 7e-06 0 1.5e-05 7e-06 0
8e-06 7e-06 7e-06 1.5e-05 7e-06 7e-06 0 0 0
7e-06 0 0 7e-06 0 7e-06 0 0 7e-06
0 7e-06 0 7e-06 7e-06 0 0 7e-06 7e-06
7e-06 7e-06 7e-06

CELLS 2 100
49 12 3 0 1 3 3 2 3 1 3 0 4 1 3 5 1 4 3 0 3 4 3 6 4 3 3 1 5 2 3 7 2 5 3 5 4 7 3 6 7 4 3 3 2 6 3 7 6 2
49 12 3 8 9 11 3 10 11 9 3 8 12 9 3 13 9 12 3 8 11 12 3 14 12 11 3 9 13 10 3 15 10 13 3 13 12 15 3 14 15 12 3 11 10 14 3 15 14 10

CELL_TYPES 2
42
42

CELL_DATA 2
FIELD FieldData 1
cell_type_id 1 2 int
0 0
"""

VTK_POLY_CUBE = """# vtk DataFile Version 4.2
vtk output
ASCII
DATASET UNSTRUCTURED_GRID
POINTS 8 double
-1 -1 -1 1 -1 -1 -1 1 -1 1 1 -1 -1 -1 1 1 -1 1 -1 1 1 1 1 1

CELLS 1 32
31 6 4 0 2 3 1 4 4 5 7 6 4 0 1 5 4 4 2 6 7 3 4 0 4 6 2 4 1 3 7 5

CELL_TYPES 1
42

CELL_DATA 1
FIELD FieldData 1
cell_type_id 1 1 int
2
"""

FACE_TYPE = """            <face_type>
                <global_face_id>{gid}</global_face_id>
                <face_type_name>{name}</face_type_name>
                <adherence_strength>1e9</adherence_strength>
                <repulsion_strength>1e9</repulsion_strength>
                <surface_tension>5e-5</surface_tension>
                <bending_modulus>5e-19</bending_modulus>
            </face_type>
"""

CELL_TYPE = """    <cell_type>
        <cell_type_name>{name}</cell_type_name>
        <global_cell_id>{cid}</global_cell_id>
        <cell_mass_density>1.0e3</cell_mass_density>
        <cell_bulk_modulus>6e3</cell_bulk_modulus>
        <max_inner_pressure>INF</max_inner_pressure>
        <avg_growth_rate>0</avg_growth_rate>
        <std_growth_rate>0</std_growth_rate>
        <target_isoperimetric_ratio>150</target_isoperimetric_ratio>
        <angle_regularization_factor>0</angle_regularization_factor>
        <area_elasticity_modulus>2e-17</area_elasticity_modulus>
        <surface_coupling_max_curvature>1e9</surface_coupling_max_curvature>
        <avg_division_volume>{vdiv}</avg_division_volume>
        <std_division_volume>0</std_division_volume>
        <min_vol>1e-18</min_vol>
        <face_types>
{faces}        </face_types>
    </cell_type>
"""


def xml_template(mesh_path, out_dir, n_types=5, triangulate=0, lmin="0.3", comments=False):
    names = ["epithelial", "ecm", "lumen", "nucleus", "static"]
    cts = ""
    for i in range(n_types):
        faces = "".join(FACE_TYPE.format(gid=j, name=n) for j, n in enumerate(["apical", "lateral", "basal"]))
        cts += CELL_TYPE.format(name=names[i], cid=i, vdiv="2e-16" if i == 0 else "INF", faces=faces)
    c = "    <!-- a comment -->\n" if comments else ""
    return """<?xml version="1.0" encoding="UTF-8"?>
<numerical_parameters>
%s    <input_mesh_file_path>%s</input_mesh_file_path>
    <output_mesh_folder_path>%s</output_mesh_folder_path>
    <damping_coefficient>1e6</damping_coefficient>
    <simulation_duration>1e-4</simulation_duration>
    <sampling_period>1e-6</sampling_period>
    <time_step>1e-7</time_step>
    <min_edge_length>%s</min_edge_length>
    <contact_cutoff_adhesion>2.5e-07</contact_cutoff_adhesion>
    <contact_cutoff_repulsion>2.5e-07</contact_cutoff_repulsion>
    <enable_edge_swap_operation>1</enable_edge_swap_operation>
    <perform_initial_triangulation>%d</perform_initial_triangulation>
</numerical_parameters>

<cell_types>
%s</cell_types>
""" % (c, mesh_path, out_dir, lmin, triangulate, cts)


def token_spans(text):
    return [(m.start(), m.end()) for m in re.finditer(r"\S+", text)]


def vtk_mutants(text):
    """yields (description, mutated text)"""
    spans = token_spans(text)
    for i, (a, b) in enumerate(spans):
        tok = text[a:b]
        yield ("delete token %d '%s'" % (i, tok), text[:a] + text[b:])
        yield ("duplicate token %d '%s'" % (i, tok), text[:b] + " " + tok + text[b:])
        for h in HOSTILE:
            if h != tok:
                yield ("token %d '%s' -> '%s'" % (i, tok, h), text[:a] + h + text[b:])
    # whole lines replaced (count lines that promise more / less than they hold)
    pos = 0
    for ln, line in enumerate(text.split("\n")):
        if line.strip():
            for repl in ["0   ", "1 0   ", "3 1 0  ", "2 5 1", "9 1 7 0 1 2 3 4 5 6", line + " " + line, "    "]:
                yield ("line %d replaced by '%s'" % (ln, repl.strip()[:20]), text[:pos] + repl + text[pos + len(line):])
        pos += len(line) + 1
    # sections removed / reordered
    heads = [m.start() for m in re.finditer(r"^(POINTS|CELLS|CELL_TYPES|CELL_DATA|FIELD)", text, re.M)] + [len(text)]
    for k in range(len(heads) - 1):
        yield ("section %d removed" % k, text[:heads[k]] + text[heads[k + 1]:])
        if k + 2 < len(heads):
            yield ("sections %d and %d swapped" % (k, k + 1), text[:heads[k]] + text[heads[k + 1]:heads[k + 2]] + text[heads[k]:heads[k + 1]] + text[heads[k + 2]:])
    step = 1 if len(text) < 700 else 7
    for cut in range(0, len(text), step):
        yield ("truncated at byte %d" % cut, text[:cut])


def xml_mutants(text):
    # element texts
    for m in re.finditer(r"<([a-z_]+)>([^<>]*)</\1>", text):
        tag, val = m.group(1), m.group(2)
        a, b = m.start(2), m.end(2)
        yield ("element <%s> removed" % tag, text[:m.start()] + text[m.end():])
        yield ("element <%s> duplicated" % tag, text[:m.end()] + m.group(0) + text[m.end():])
        for h in HOSTILE + ["INF", "-INF", "1e", "0x10", " ", "1 2", "\t\n"]:
            if h != val:
                yield ("<%s>%s -> '%s'" % (tag, val, h), text[:a] + h + text[b:])
        yield ("<%s> self-closing" % tag, text[:m.start()] + "<%s/>" % tag + text[m.end():])
    # structural
    for m in re.finditer(r"</?[a-z_]+>", text):
        yield ("tag %s deleted at %d" % (m.group(0), m.start()), text[:m.start()] + text[m.end():])
    for sec in ["numerical_parameters", "cell_types", "cell_type", "face_types", "face_type"]:
        m = re.search(r"<%s>.*?</%s>" % (sec, sec), text, re.S)
        if m:
            yield ("section <%s> removed" % sec, text[:m.start()] + text[m.end():])
            yield ("section <%s> emptied" % sec, text[:m.start()] + "<%s></%s>" % (sec, sec) + text[m.end():])
    step = 13 if len(text) > 3000 else 3
    for cut in range(0, len(text), step):
        yield ("truncated at byte %d" % cut, text[:cut])


def keep_case(xml_path, dest_dir):
    """copies a failing start-up input (parameter file + the mesh it names) to dest_dir, rewriting the mesh path"""
    os.makedirs(dest_dir, exist_ok=True)
    text = open(xml_path, errors="replace").read()
    m = re.search(r"<input_mesh_file_path>([^<]*)</input_mesh_file_path>", text)
    if m and os.path.exists(m.group(1).strip()):
        dst = os.path.join(dest_dir, "mesh.vtk")
        shutil.copy(m.group(1).strip(), dst)
        text = text[:m.start(1)] + dst + text[m.end(1):]
    out = os.path.join(dest_dir, "params.xml")
    with open(out, "w") as f:
        f.write(text)
    return out


def replay_xml(path, engines=None, timeout=120, rss_mb=3000):
    """re-executes one start-up input; returns (status, detail)"""
    variant = "san"
    exe = (engines or {}).get(("C10_pipeline", variant)) or build.ensure_engine("C10_pipeline", variant, extra_flags=['-DVERIF_VARIANT="%s"' % variant])
    scratch = os.path.join(build.BUILD, "run", "C17_replay_%d" % os.getpid())
    os.makedirs(scratch, exist_ok=True)
    env = dict(os.environ)
    env["ASAN_OPTIONS"] = "detect_leaks=0:exitcode=77:abort_on_error=0:allocator_may_return_null=1:hard_rss_limit_mb=%d" % rss_mb
    env["UBSAN_OPTIONS"] = "halt_on_error=1:exitcode=77:print_stacktrace=1"
    env["OMP_NUM_THREADS"] = "1"
    r = Runner(exe, scratch, env).run_batch([os.path.abspath(path)], "replay", per_item_timeout=timeout)
    shutil.rmtree(scratch, ignore_errors=True)
    return r[0] if r[0] else ("died", "no verdict")


class Runner:
    def __init__(self, exe, scratch, env):
        self.exe, self.scratch, self.env = exe, scratch, env

    def run_batch(self, items, batch_id, per_item_timeout=60):
        """items: list of xml paths. Returns list of (status, detail) in order; status in ok / exception / died / hang"""
        results = [None] * len(items)
        start = 0
        while start < len(items):
            lst = os.path.join(self.scratch, "batch_%s_%d.lst" % (batch_id, start))
            with open(lst, "w") as f:
                f.write("\n".join(items[start:]) + "\n")
            p = subprocess.Popen([self.exe, "--startup-batch", lst], stdout=subprocess.PIPE, stderr=subprocess.PIPE, env=self.env, cwd=self.scratch)
            try:
                out, err = p.communicate(timeout=per_item_timeout + 0.5 * (len(items) - start))
                timed_out = False
            except subprocess.TimeoutExpired:
                p.kill()
                out, err = p.communicate()
                timed_out = True
            out = out.decode("utf-8", "replace")
            last_begin = -1
            done = {}
            for line in out.splitlines():
                if line.startswith("BEGIN "):
                    last_begin = int(line.split()[1])
                elif line.startswith("DONE "):
                    parts = line.split(" ", 3)
                    done[int(parts[1])] = (parts[2], parts[3] if len(parts) > 3 else "")
            for k, (st, detail) in done.items():
                results[start + k] = ("ok", detail) if st == "completed" else ("died", detail) if st == "broken" else ("exception", detail)
            if p.returncode == 0 and not timed_out and len(done) == len(items) - start:
                break
            # the child died (or hung) on item last_begin
            if last_begin < 0:
                last_begin = 0
            tail = err.decode("utf-8", "replace")
            keep = [l for l in tail.splitlines() if "ERROR" in l or "runtime error" in l or "SUMMARY" in l or "Assertion" in l or "terminate" in l or "what()" in l]
            results[start + last_begin] = ("hang" if timed_out else "died", "rc=%s %s" % (p.returncode, " | ".join(keep[:3])[:400]))
            start = start + last_begin + 1
            try:
                os.unlink(lst)
            except OSError:
                pass
        return results


def run(tier, seed, engines, job):
    t0 = time.time()
    variant = "san"
    exe = engines.get(("C10_pipeline", variant)) or build.ensure_engine("C10_pipeline", variant, extra_flags=['-DVERIF_VARIANT="%s"' % variant])
    scratch = os.path.join(build.BUILD, "run", "C17_faults")
    shutil.rmtree(scratch, ignore_errors=True)
    os.makedirs(scratch)
    env = dict(os.environ)
    env["ASAN_OPTIONS"] = "detect_leaks=0:exitcode=77:abort_on_error=0:allocator_may_return_null=1:hard_rss_limit_mb=3000"
    env["UBSAN_OPTIONS"] = "halt_on_error=1:exitcode=77:print_stacktrace=1"
    env["OMP_NUM_THREADS"] = "1"
    env["OMP_WAIT_POLICY"] = "passive"
    runner = Runner(exe, scratch, env)

    vtk_templates = [("tetra", VTK_TETRA, 0), ("two_cubes", VTK_TWO_CUBES, 0), ("poly_cube", VTK_POLY_CUBE, 1)]
    xml_templates = [("five_types", dict(n_types=5)), ("one_type", dict(n_types=1)), ("commented", dict(n_types=2, comments=True))]
    if tier == "quick":
        vtk_templates = vtk_templates[:2]
        xml_templates = xml_templates[:1]

    work = []  # (template name, description, xml path)
    idx = 0
    valid_vtk = os.path.join(scratch, "valid.vtk")
    with open(valid_vtk, "w") as f:
        f.write(VTK_TETRA)
    excluded = 0
    for name, text, tri in vtk_templates:
        pts_a = text.index("POINTS")
        pts_b = text.index("CELLS")
        coord_tokens = {i for i, (a, b) in enumerate(token_spans(text)) if pts_a < a < pts_b}
        for desc, mut in vtk_mutants(text):
            m999 = re.match(r"token (\d+) .* -> '999999'", desc)
            if tri and m999 and int(m999.group(1)) in coord_tokens and int(m999.group(1)) >= min(coord_tokens) + 2:
                excluded += 1  # known finding KF1 (memory blow-up for extent / l_min ~ 1e6): excluded by construction, replayed separately
                continue
            vp = os.path.join(scratch, "m%06d.vtk" % idx)
            xp = os.path.join(scratch, "m%06d.xml" % idx)
            with open(vp, "w") as f:
                f.write(mut)
            with open(xp, "w") as f:
                f.write(xml_template(vp, os.path.join(scratch, "out"), 5, tri, "0.45"))
            work.append(("vtk:" + name, desc, xp))
            idx += 1
    # the same value mutations with the initial triangulation switched on (polygonal cube): hostile edge lengths, cut-offs ... then
    # reach the sampling grids and the ball pivoting instead of stopping at the reader
    poly_vtk = os.path.join(scratch, "valid_poly.vtk")
    with open(poly_vtk, "w") as f:
        f.write(VTK_POLY_CUBE)
    text = xml_template(poly_vtk, os.path.join(scratch, "out"), n_types=5, triangulate=1, lmin="0.45")
    num_end = text.index("</numerical_parameters>")
    for desc, mut in xml_mutants(text[:num_end]):
        if not desc.startswith("<") or "self-closing" in desc:
            continue
        xp = os.path.join(scratch, "m%06d.xml" % idx)
        with open(xp, "w") as f:
            f.write(mut + text[num_end:])
        work.append(("xml:triangulated", desc, xp))
        idx += 1
    for name, kw in xml_templates:
        text = xml_template(valid_vtk, os.path.join(scratch, "out"), **kw)
        for desc, mut in xml_mutants(text):
            xp = os.path.join(scratch, "m%06d.xml" % idx)
            with open(xp, "w") as f:
                f.write(mut)
            work.append(("xml:" + name, desc, xp))
            idx += 1
    # sanity: the unmutated templates must complete
    base = []
    for name, text, tri in vtk_templates:
        vp = os.path.join(scratch, "base_%s.vtk" % name)
        xp = os.path.join(scratch, "base_%s.xml" % name)
        open(vp, "w").write(text)
        open(xp, "w").write(xml_template(vp, os.path.join(scratch, "out"), 5, tri, "0.45"))
        base.append(xp)
    base_res = runner.run_batch(base, "base")

    nworkers = build.NCPU
    chunk = max(50, (len(work) + nworkers * 4 - 1) // (nworkers * 4))
    batches = [work[i:i + chunk] for i in range(0, len(work), chunk)]

    def do(bi):
        return runner.run_batch([w[2] for w in batches[bi]], "b%d" % bi)

    with ThreadPoolExecutor(nworkers) as ex:
        res = list(ex.map(do, range(len(batches))))
    counters = {"mutants": len(work), "excluded_known_finding_KF1": excluded}
    violations = []
    # committed regression inputs first
    import glob
    known_hits = []
    for rp in sorted(glob.glob(os.path.join(build.VERIF, "replays", "C17", "*", "params.xml"))):
        name = os.path.basename(os.path.dirname(rp))
        if name.startswith("known_"):
            # a recorded, unrepaired finding: it is expected to fail; reported as KNOWN-FINDING, never as a violation
            st, detail = replay_xml(rp, engines, rss_mb=700)
            if st in ("died", "hang"):
                known_hits.append((name.split("_")[1], detail))
            else:
                notes_known = "known finding %s no longer reproduces (%s)" % (name, st)
                counters["known_findings_not_reproduced"] = counters.get("known_findings_not_reproduced", 0) + 1
            continue
        st, detail = replay_xml(rp, engines)
        counters["regression_replays"] = counters.get("regression_replays", 0) + 1
        if st in ("died", "hang"):
            violations.append((rp, "regression input %s: start-up %s: %s" % (os.path.basename(os.path.dirname(rp)), st, detail)))
    samples = []
    nontrivial = set()
    notes = []
    for xp, r in zip(base, base_res):
        if r is None or r[0] != "ok":
            notes.append("valid template did not complete: %s %s" % (os.path.basename(xp), r))
            violations.append((xp, "the unmutated template %s is not accepted: %s" % (os.path.basename(xp), r)))
    os.makedirs(os.path.join(build.BUILD, "violations", "C17"), exist_ok=True)
    for batch, rs in zip(batches, res):
        for (tname, desc, xp), r in zip(batch, rs):
            st, detail = r if r else ("died", "no verdict")
            counters["%s %s" % (tname.split(":")[0], st)] = counters.get("%s %s" % (tname.split(":")[0], st), 0) + 1
            if st == "exception":
                # non-trivial: got past the first syntactic check (the message is not the generic 'file not found / header' one)
                if not re.search(r"could not be found|header with .vtk file version", detail):
                    nontrivial.add(tname + "|" + desc)
                if len(samples) < 6 and len(samples) < 6:
                    samples.append("%s: %s -> %s" % (tname, desc, detail[:100]))
            elif st == "ok":
                nontrivial.add(tname + "|" + desc)
            else:
                # confirm: re-run alone (3x for hangs)
                confirmed = 0
                tries = 3 if st == "hang" else 1
                for _ in range(tries):
                    rr = runner.run_batch([xp], "confirm", per_item_timeout=60)
                    if rr[0] and rr[0][0] in ("died", "hang"):
                        confirmed += 1
                        detail = rr[0][1]
                if confirmed == tries:
                    keep = keep_case(xp, os.path.join(build.BUILD, "violations", "C17", os.path.basename(xp)[:-4]))
                    what = "hangs" if st == "hang" else ("accepts a broken input" if detail.startswith("start-up completed") else "crashes")
                    violations.append((keep, "%s, %s: start-up %s: %s" % (tname, desc, what, detail)))
                else:
                    notes.append("unconfirmed %s on %s %s" % (st, tname, desc))
    shutil.rmtree(scratch, ignore_errors=True)
    return {
        "evaluations": len(work), "nontrivial": nontrivial, "counters": counters, "samples": samples, "notes": notes,
        "violations": violations, "exhaustive": True, "wall": time.time() - t0, "known_hits": known_hits,
    }
