"""Content-hash build cache for /repo's *current working tree* (per variant) and for harness engines.

Every check calls ensure_lib(variant) / ensure_engine(name, variant) first, so the objects the engines link
against always come from the sources currently under /repo (edited or not).  Builds are guarded by flock so
that checks running in parallel share the cache instead of racing on it.
"""
import fcntl
import glob
import hashlib
import os
import subprocess
import sys
import time
from concurrent.futures import ThreadPoolExecutor

VERIF = os.path.dirname(os.path.dirname(os.path.abspath(__file__)))
REPO = os.environ.get("VERIF_REPO", "/repo")
BUILD = os.environ.get("VERIF_BUILD", os.path.join(VERIF, "build"))  # overridable for trials on scratch copies of the repository
NCPU = os.cpu_count() or 4

INC_DIRS = [
    "include", "include/io", "include/mesh", "include/mesh/cell_types", "include/math_modules",
    "include/triangulation_modules", "include/time_integration", "include/contact_models",
    "include/automatic_polarization", "include/uspg", "lib/tinyxml2", "lib/delaunator/include",
]

SRC_GLOBS = [
    "src/*.cpp", "src/uspg/*.cpp", "src/math_modules/*.cpp", "src/mesh/*.cpp", "src/io/*.cpp",
    "src/triangulation_modules/*.cpp", "src/time_integration/*.cpp", "src/contact_models/*.cpp",
    "src/automatic_polarization/*.cpp", "lib/tinyxml2/tinyxml2.cpp",
]

COMMON = ["-std=gnu++17", "-fopenmp", "-DNDEBUG", "-ffp-contract=off", "-DSIMUCELL3D_VERIF",
          "-w", '-DPROJECT_SOURCE_DIR="%s"' % REPO]
SAN = ["-O1", "-g1", "-fsanitize=address,undefined", "-fno-sanitize-recover=undefined",
       "-fno-omit-frame-pointer", "-D_GLIBCXX_ASSERTIONS"]

VARIANTS = {
    "san":     {"cxx": "g++", "flags": COMMON + SAN},
    "san-cm0": {"cxx": "g++", "flags": COMMON + SAN + ["-DSIMUCELL3D_VERIF_CONTACT_MODEL_INDEX=0"]},
    "san-cm2": {"cxx": "g++", "flags": COMMON + SAN + ["-DSIMUCELL3D_VERIF_CONTACT_MODEL_INDEX=2"]},
    "san-dm1": {"cxx": "g++", "flags": COMMON + SAN + ["-DSIMUCELL3D_VERIF_DYNAMIC_MODEL_INDEX=1"]},
    "plain":   {"cxx": "g++", "flags": COMMON + ["-O2", "-g1"]},
    # libFuzzer variant: clang, only the TUs clang can compile (start-up / parsing path)
    "fuzz":    {"cxx": "clang++", "flags": ["-std=gnu++17", "-DNDEBUG", "-ffp-contract=off", "-DSIMUCELL3D_VERIF",
                                            "-w", '-DPROJECT_SOURCE_DIR="%s"' % REPO, "-O1", "-g",
                                            "-fsanitize=fuzzer-no-link,address,undefined",
                                            "-fno-sanitize-recover=undefined", "-fno-omit-frame-pointer"],
                "only": ["src/io/mesh_reader.cpp", "src/io/parameter_reader.cpp", "src/io/simulation_initializer.cpp",
                         "src/io/mesh_writer.cpp", "src/mesh/cell.cpp", "src/mesh/node.cpp", "src/mesh/face.cpp",
                         "src/mesh/edge.cpp", "src/math_modules/vec3.cpp", "src/math_modules/mat33.cpp",
                         "src/triangulation_modules/initial_triangulation.cpp",
                         "src/triangulation_modules/poisson_sampling.cpp",
                         "src/triangulation_modules/ball_pivoting_algorithm.cpp",
                         "lib/tinyxml2/tinyxml2.cpp"]},
}


def log(msg):
    sys.stderr.write("[build] %s\n" % msg)
    sys.stderr.flush()


def _sha(paths, extra=""):
    h = hashlib.sha256()
    h.update(extra.encode())
    for p in sorted(paths):
        h.update(p.encode())
        try:
            with open(p, "rb") as f:
                h.update(f.read())
        except OSError:
            h.update(b"<missing>")
    return h.hexdigest()[:20]


def repo_headers():
    out = []
    for d in INC_DIRS:
        out += glob.glob(os.path.join(REPO, d, "*.hpp")) + glob.glob(os.path.join(REPO, d, "*.h"))
    return sorted(set(out))


def repo_sources(variant):
    v = VARIANTS[variant]
    if "only" in v:
        return [os.path.join(REPO, p) for p in v["only"]]
    out = []
    for g in SRC_GLOBS:
        out += glob.glob(os.path.join(REPO, g))
    return sorted(set(out))


def inc_flags():
    return ["-I" + os.path.join(REPO, d) for d in INC_DIRS]


class Lock:
    def __init__(self, name):
        os.makedirs(BUILD, exist_ok=True)
        self.path = os.path.join(BUILD, name + ".lock")

    def __enter__(self):
        self.f = open(self.path, "w")
        fcntl.flock(self.f, fcntl.LOCK_EX)
        return self

    def __exit__(self, *a):
        fcntl.flock(self.f, fcntl.LOCK_UN)
        self.f.close()


def _run(cmd):
    p = subprocess.run(cmd, stdout=subprocess.PIPE, stderr=subprocess.STDOUT, text=True)
    return p.returncode, p.stdout


def ensure_lib(variant):
    """Build (or reuse) the static library of /repo's current sources for this variant; returns its path."""
    v = VARIANTS[variant]
    vdir = os.path.join(BUILD, variant)
    os.makedirs(vdir, exist_ok=True)
    with Lock("lib-" + variant):
        hdr_hash = _sha(repo_headers(), " ".join(v["flags"]) + v["cxx"])
        jobs = []
        objs = []
        for src in repo_sources(variant):
            key = _sha([src], hdr_hash)
            base = os.path.relpath(src, REPO).replace("/", "_")[:-4]
            obj = os.path.join(vdir, "%s.%s.o" % (base, key))
            objs.append(obj)
            if not os.path.exists(obj):
                for old in glob.glob(os.path.join(vdir, base + ".*.o")):
                    os.unlink(old)
                jobs.append((src, obj))
        lib = os.path.join(vdir, "libsimu.%s.a" % _sha([], "".join(objs)))
        if jobs:
            t0 = time.time()
            log("%s: compiling %d translation unit(s) of %s" % (variant, len(jobs), REPO))

            def comp(job):
                src, obj = job
                rc, out = _run([v["cxx"]] + v["flags"] + inc_flags() + ["-c", src, "-o", obj + ".tmp"])
                if rc == 0:
                    os.replace(obj + ".tmp", obj)
                return rc, src, out

            with ThreadPoolExecutor(NCPU) as ex:
                res = list(ex.map(comp, jobs))
            bad = [r for r in res if r[0] != 0]
            if bad:
                for rc, src, out in bad:
                    sys.stderr.write("BUILD FAILED %s\n%s\n" % (src, out[-4000:]))
                raise SystemExit(2)
            log("%s: done in %.1fs" % (variant, time.time() - t0))
        if not os.path.exists(lib):
            for old in glob.glob(os.path.join(vdir, "libsimu.*.a")):
                os.unlink(old)
            rc, out = _run(["ar", "rcs", lib + ".tmp"] + objs)
            if rc != 0:
                sys.stderr.write(out)
                raise SystemExit(2)
            os.replace(lib + ".tmp", lib)
        return lib


def harness_deps():
    return sorted(glob.glob(os.path.join(VERIF, "harness", "common", "*.hpp")))


def ensure_engine(name, variant, extra_flags=(), libs=("-lrapidcheck",), src=None):
    """Compile harness/<name>.cpp against the variant's library; returns the executable path."""
    lib = ensure_lib(variant)
    v = VARIANTS[variant]
    src = src or os.path.join(VERIF, "harness", name + ".cpp")
    vdir = os.path.join(BUILD, variant)
    with Lock("eng-%s-%s" % (name, variant)):
        key = _sha([src] + harness_deps() + repo_headers(), " ".join(v["flags"]) + " ".join(extra_flags) + lib)
        exe = os.path.join(vdir, "%s.%s.exe" % (name, key))
        if os.path.exists(exe):
            return exe
        for old in glob.glob(os.path.join(vdir, name + ".*.exe")):
            os.unlink(old)
        t0 = time.time()
        cmd = ([v["cxx"]] + v["flags"] + list(extra_flags) + inc_flags() + ["-I" + os.path.join(VERIF, "harness")] +
               [src, lib] + list(libs) + ["-o", exe + ".tmp"])
        rc, out = _run(cmd)
        if rc != 0:
            sys.stderr.write("ENGINE BUILD FAILED %s (%s)\n%s\n" % (name, variant, out[-6000:]))
            raise SystemExit(2)
        os.replace(exe + ".tmp", exe)
        log("%s[%s] built in %.1fs" % (name, variant, time.time() - t0))
        return exe


if __name__ == "__main__":
    for var in sys.argv[1:] or ["san"]:
        print(ensure_lib(var))
