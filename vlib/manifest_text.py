"""Human-written level / note / technique text per property for MANIFEST.json."""

NOT_APPLICABLE = {}

TEXT = {
    "C05": {
        "technique": "rapidcheck property-based testing, region-constructed generator, differential against an independent closest-point reference + metamorphic rigid-motion relation",
        "level": "Generated-input exploration: every Voronoi region, aspect ratios to 1:1000, five placement magnitudes and six scales are "
                 "populated by construction (tens of thousands of distinct non-trivial cases per quick run); each case is judged by an "
                 "independent long-double brute-force closest point, so a wrong region predicate, a wrong closest point or a wrong "
                 "returned distance in any region is caught within the first few hundred cases. Absence of violations is not a proof.",
        "note": "Trusted: the harness's own closest-point reference (feature brute force) and the rounding-error model of the tolerances "
                "(32 eps (|coordinates|+size), conditioning term size^2/area). Degenerate triangles (area < 1e-7 L^2) are outside the domain.",
    },
}
