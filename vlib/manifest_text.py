"""Human-written level / note / technique text per property for MANIFEST.json."""

NOT_APPLICABLE = {}

TEXT = {
    "C05": {
        "technique": "rapidcheck property-based testing, region-constructed generator, differential against an independent closest-point reference + metamorphic rigid-motion relation",
        "level": "Generated-input exploration: every Voronoi region, aspect ratios to 1:1000, five placement magnitudes and six scales are "
                 "populated by construction (tens of thousands of distinct non-trivial cases per quick run); each case is judged by an "
                 "independent long-double brute-force closest point, so a wrong region predicate, a wrong closest point or a wrong "
                 "returned distance in any region is caught within the first few hundred cases. Absence of violations is not a proof.",
        "note": "Trusted: the harness's own closest-point reference (feature brute force) and the rounding-error model of the tolerances "
                "(32 eps (|coordinates|+size), conditioning term size^2/area). Degenerate triangles (area < 1e-7 L^2) are outside the domain.",
    },
    "C01": {
        "technique": "rapidcheck stateful (history) property testing with an independent topological/orientation oracle after every command",
        "level": "Generated histories of displacements, refinement passes, single split/collapse/swap operations and compactions on "
                 "generated closed meshes; every clause of the statement (closedness, opposite traversal, Euler characteristic, live "
                 "references, bookkeeping vs recomputation, cached normal vs winding, outwardness) is recomputed from the triangle list "
                 "alone after each command under ASan/UBSan/_GLIBCXX_ASSERTIONS. Thousands of distinct non-trivial histories per quick run; "
                 "it found three genuine defects in the pinned tree (now fixed). Exploration, not proof.",
        "note": "Trusted: the harness oracle (geom.hpp/celltools.hpp). Embedding (self-intersection) is not part of the statement and is not checked.",
    },
    "C02": {
        "technique": "rapidcheck property-based testing; differential against closed-form energy gradients (finite-difference cross-check), conservation invariants, metamorphic rigid-motion covariance",
        "level": "Each force term is isolated and compared node by node with P dV/dx and -sum tau dA/dx computed independently in long double; "
                 "net force and net torque are checked per term and for the sum; the covariance clause re-runs the real code on the rigidly "
                 "moved mesh. Exploration over thousands of generated meshes/parameter sets; found the bending-normal defect (fixed).",
        "note": "Trusted: the harness gradients and the stated rounding-error model. Terms are reached through the cell_tester friend name declared by the headers.",
    },
    "C20": {
        "technique": "rapidcheck property-based testing against a reference model (long-double voxel index, brute-force neighbourhood, multiset of stored objects), including histories of re-dimensioning on the same grid object",
        "level": "Boxes whose extent is an exact multiple of the voxel size with points on the max faces/corners are produced by construction "
                 "in half of the cases, at micro and unit scale, near and far from the origin; every indexed point, every placement, "
                 "every neighbourhood and the full content are compared with the reference model under ASan. Found the out-of-range voxel "
                 "for points on the upper boundary (fixed). Exploration, not proof.",
        "note": "Trusted: the reference model in the harness. Points within 1e-9 voxel of an interior voxel boundary are only required to map to an existing voxel.",
    },
    "C03": {
        "technique": "rapidcheck property-based testing, differential against an independent re-implementation of the integration law, over 4 compile-time configurations and 1..16 threads",
        "level": "Every live node of every cell is compared after every step with the law recomputed in long double; static cells and dead "
                 "slots must be bit-unchanged, force accumulators exactly zero, time exactly the float fold of dt; coupled pairs are "
                 "checked for equal displacement and conserved total momentum. Found that contact model 2 integrated positions with "
                 "the old momentum (fixed). Exploration.",
        "note": "Trusted: the harness re-implementation. Non-mutual couplings (which the contact models can leave behind) are outside the quantifier.",
    },
    "C12": {
        "technique": "rapidcheck property-based testing; differential against independent long-double geometry + metamorphic relations (rigid motion, renumbering, winding mix, uniform scaling)",
        "level": "Volume, area, centroid and bounding box are compared with independent implementations evaluated about the mesh centre; the "
                 "same surface is re-submitted in a second frame, with another numbering and winding mix, and scaled; outwardness and "
                 "cached normals are decided by the independent topology oracle. Exploration over thousands of generated inputs per run.",
        "note": "Trusted: geom.hpp. The tolerance of the volume is the error model of the code's origin-anchored formula, so a loss of accuracy "
                "far from the origin below that model is not reported.",
    },
    "C11": {
        "technique": "rapidcheck property-based testing; trace-driven shadow model (operation trace replayed on an independent copy), invariants for momentum / volume / area, fixpoint check on conforming meshes",
        "level": "Complete per pass: any node that moved, appeared off-midpoint, or any triangle/label not explained by the traced "
                 "operations makes the final cell differ from the shadow; every split/collapse is checked against the length band in the "
                 "shadow's own coordinates. Hundreds of thousands of refiner operations per quick run. Termination is only sampled.",
        "note": "Trusted: the shadow replay in the harness and hook H4 (3 added lines in local_mesh_refiner.cpp). Liveness is decided as 'returned within the watchdog on every generated input'.",
    },
    "C16": {
        "technique": "rapidcheck property-based testing; round-trip oracle (writer -> simulator's reader) plus an independent strict VTK-legacy parser for the declared counts",
        "level": "Every generated population is written through one of the three writer entry points, checked by an independent parser "
                 "(POINTS/CELLS/CELL_TYPES/CELL_DATA/FIELD counts against contents), read back by the simulator's reader and compared "
                 "cell by cell: counts, types, every triangle, every coordinate (exactly, against the %.4e rendering). Exploration.",
        "note": "Trusted: vtkparse.hpp. The second hop (output used as input of another run) is exercised by the pipeline engine of C10.",
    },
    "C18": {
        "technique": "rapidcheck property-based testing; round-trip against strtod of the written text, single-fault mutations (omitted / sign-violating / boundary tags)",
        "level": "Each of the ~30 tags is compared bit-exactly with the number written, with pairwise distinct values so that a swapped "
                 "wiring is visible; every tag is omitted and every announced constraint violated many times per run. Exploration.",
        "note": "Trusted: the harness's tag-to-field table (written from the documentation of the parameter file). Malformed text is C17's subject.",
    },
    "C06": {
        "technique": "rapidcheck property-based testing; differential of the grid-accelerated run against an all-pairs reference driven through the real narrow phase, plus a metamorphic single-voxel run",
        "level": "For every generated tissue the forces, couplings, positions and polarisation produced with the spatial grid must equal "
                 "those obtained by presenting every node / foreign-face pair to the same rules, for each of the three contact models. "
                 "A dropped voxel column, a padding by the wrong cut-off or an off-by-one in the voxel loops changes the result in almost "
                 "every non-trivial tissue. Exploration.",
        "note": "Trusted: the replication of the pre-filters (curvature threshold, normal test, id test) and of the midpoint pass in the harness.",
    },
    "C07": {
        "technique": "rapidcheck property-based testing; conservation invariant on whole tissues, independent-kernel range oracle, constructed single-pair configurations judged against the stated law",
        "level": "Reciprocity is checked on whole tissues and on isolated node/face pairs; range and ownership with the independent closest-point "
                 "kernel; direction, barycentric distribution and magnitude of the repulsion on constructed single-pair cases for all 25 "
                 "class pairs and both sides, in each contact model. Exploration.",
        "note": "Trusted: geom.hpp; the classification of 'forbidden side' per class pair follows the statement (inside an ordinary cell, outside an enclosing ECM, outside the enclosing cell for a nucleus).",
    },
    "C08": {
        "technique": "rapidcheck stateful (history) property testing on the real solver with identity / cross-reference invariants after every iteration, under ASan + _GLIBCXX_ASSERTIONS",
        "level": "Divisions and removals are forced at generated list positions and iterations; position index == list position, id uniqueness, "
                 "monotone fresh ids, coupling targets, face owners and face-type indices are recomputed after every iteration for the three "
                 "contact models. Found the missing renumbering after removals and the unchecked face-type count (both fixed). Exploration.",
        "note": "Trusted: the harness invariants. Mid-iteration uses of references are only observable through the sanitizers.",
    },
    "C04": {
        "technique": "rapidcheck property-based testing; reference recurrence (bit-exact) and pressure law against the independent volume, stateful solver histories with forced volume jumps",
        "level": "The target-volume recurrence is checked bit-exactly, pressure against -K ln(V/Vt) capped at Pmax with V from the independent "
                 "geometry, eligibility per class, 3-sigma clamping over seeded draws; removal / non-resurrection over solver histories. Exploration.",
        "note": "Trusted: geom.hpp; hook H2 only re-seeds the generators (4 added lines).",
    },
    "C09": {
        "technique": "rapidcheck property-based testing with constructed degenerate axes; success/failure branch oracle using the independent topology oracle, snapshot comparison for the failure branch",
        "level": "Every division outcome is judged: on success two outward closed manifolds of the mother's type on their own sides, volumes "
                 "adding up within the remeshing tolerance, half target volume, fresh unique ids and renumbered positions; on failure the "
                 "mother and all other cells bitwise unchanged and no exception. Axis classes that hit nodes or coordinate axes are produced by "
                 "construction. Found the NaN interface for axis -z and the out-of-bounds read on coincident interface points (both fixed). Exploration.",
        "note": "Trusted: the harness oracle; forced axes use the repository's own virtual get_cell_division_axis().",
    },
    "C13": {
        "technique": "rapidcheck property-based testing through the real start-up path (file -> reader -> reconstruction -> integrity check) with an independent topology + exact-polyhedron oracle; brute-force spacing oracle; direct driving of the hole-filling stage",
        "level": "Every generated polyhedron either yields a cell that the independent oracle accepts (closed, outward, volume / bounding box / "
                 "node distance within the stated resolution-dependent tolerance of the exact input) or an exception; the Poisson cloud is "
                 "checked pair by pair. Found: inward-wound inputs returned a degenerate 4-triangle cell, samples one ulp outside the "
                 "bounding box wrapped the voxel index, hole filling iterated over a growing vector (all fixed). Exploration.",
        "note": "Trusted: polygen.hpp (exact input surface), geom.hpp. Liveness = returned within the per-case watchdog.",
    },
    "C19": {
        "technique": "rapidcheck property-based testing over generated (dt, S, T) ratio classes and population histories; invariants over the output history (file numbering, strict VTK parse, statistics rows vs getters)",
        "level": "After every generated run the output directory is enumerated and parsed with the independent strict parser, the numbering "
                 "must be 1..K without gaps with K within one of floor(T/S)+1, the ids in each file those alive when it was written, time "
                 "the exact float fold of dt, and every statistics row is compared with the cells' getters rendered in the documented format. "
                 "Found the numbering gaps for S = k dt (fixed). Exploration.",
        "note": "Trusted: vtkparse.hpp and the harness's reading of 'alive when recorded' (see assumptions in the evidence).",
    },
    "C14": {
        "technique": "rapidcheck property-based testing; metamorphic relation (translation) checked in lock-step on real solvers with a noise-calibrated tolerance and a tie filter for discrete decisions, and on single real divisions of cells in the solver's stale-cache state",
        "level": "Whole trajectories of generated tissues are compared node by node with their translated twins after every iteration, together "
                 "with connectivity, cell count, volumes and pressures; the tolerance is measured per case from two noise-perturbed runs. "
                 "Exploration over six translation classes including voxel-aligned shifts and origin crossings.",
        "note": "Trusted: the tolerance model (see assumptions). Chaotic cases (noise amplified beyond the cap) are reported as inconclusive, not as violations.",
    },
    "C15": {
        "technique": "rapidcheck property-based testing over thread counts and generated schedules (sleep plans at guarded scheduling points); differential (state, statistics and every written mesh file; each run in a freshly forked process) against the single-threaded run; overlap detector on guarded list-access events; fault injection at generated list positions",
        "level": "Bit-exact differential between thread counts and schedules on whole runs, a sound detector for 'list read while another thread "
                 "resizes it' whose window is held open for milliseconds so that generated schedules hit it, and exception transport "
                 "checked on the handler and its two real users. Found the resize-during-read in cell_divider::run (fixed). Sampling of schedules, not enumeration.",
        "note": "Trusted: hooks H3 (23 added lines). No happens-before race detector is available for this code base (clang cannot compile it; g++ TSan + libgomp is unsound).",
    },
    "C10": {
        "technique": "rapidcheck scenario generation driving the whole pipeline in sanitized child processes (ASan, UBSan, _GLIBCXX_ASSERTIONS), heap-fill differential for uninitialised reads, valgrind pass (thorough), regression replay of every memory finding",
        "level": "Whole simulations (file parsing to destructors) with divisions, removals, contacts, remeshing and output, 1-16 threads, under "
                 "the sanitizers in four compile-time configurations; results must not depend on the heap fill byte. Together with the other "
                 "engines (all run under the same sanitizers) it found 9 memory-safety defects, all fixed. Exploration; schedules sampled.",
        "note": "Trusted: the sanitizers. Liveness is not part of this property. The digest ignores the wall-clock column of the statistics.",
    },
    "C17": {
        "technique": "deterministic exhaustive single-fault enumeration over valid input templates + coverage-guided fuzzing (libFuzzer) with semantic oracles, both through the real start-up path under ASan/UBSan",
        "level": "The single-fault space of the templates is enumerated completely (about 10 000 mutants in the quick tier, 17 000 in the thorough "
                 "tier); three fuzz targets explore multi-fault and byte-level inputs. Found 7 start-up defects (6 fixed, 1 recorded as known "
                 "finding KF1: resource use grows with (extent / l_min)^2 independent of the input size).",
        "note": "Trusted: the child protocol (BEGIN/DONE lines) and the sanitizers. 'Loops forever' is decided as 'exceeds 60 s three times'.",
    },
}
