"""Regenerates MANIFEST.json from vlib/registry.py + vlib/manifest_text.py (keeps the two in sync)."""
import json
import os
import subprocess

from .registry import PROPERTIES
from .manifest_text import TEXT, NOT_APPLICABLE

VERIF = os.path.dirname(os.path.dirname(os.path.abspath(__file__)))


def hook_commits():
    out = subprocess.run(["git", "-C", "/repo", "log", "--format=%h %s"], stdout=subprocess.PIPE, text=True).stdout
    return [l.split()[0] for l in out.splitlines() if "verif hook" in l]


def main():
    props = [json.loads(l) for l in open(os.path.join(VERIF, "properties.jsonl"))]
    checks = []
    na = []
    engines = {}
    for p in props:
        pid = p["id"]
        if pid in PROPERTIES and pid in TEXT:
            t = TEXT[pid]
            checks.append({
                "property_id": pid,
                "quick_cmd": "bin/check %s --tier quick" % pid,
                "thorough_cmd": "bin/check %s --tier thorough" % pid,
                "evidence_file": "evidence/%s.json" % pid,
                "replay_cmd_template": "bin/check %s --replay {path}" % pid,
                "engine": ", ".join(sorted({j["engine"] for j in PROPERTIES[pid]["jobs"] if j.get("engine")})),
                "level_claimed": {"category": PROPERTIES[pid].get("level", "exploration"), "text": t["level"],
                                  "design_ref": t.get("design_ref", "DESIGN.md section 6, " + pid)},
                "level_note": t["note"],
                "technique": t["technique"],
            })
            for j in PROPERTIES[pid]["jobs"]:
                if j.get("engine"):
                    engines.setdefault(j["engine"], set()).add(pid)
        else:
            na.append({"property_id": pid, "reason": NOT_APPLICABLE.get(pid, "check not implemented yet in this revision")})
    m = {
        "version": 1,
        "setup_cmd": "python3 -m vlib.setup",
        "hooks": {
            "guard": "SIMUCELL3D_VERIF",
            "enable": "checks compile /repo's current sources out-of-tree into /verif/build/<variant>/ with -DSIMUCELL3D_VERIF "
                      "(plus -DSIMUCELL3D_VERIF_CONTACT_MODEL_INDEX / _DYNAMIC_MODEL_INDEX for the model variants); see vlib/build.py",
            "baseline_off_cmd": "cmake --build /repo/_build -j16 && ctest --test-dir /repo/_build -j8 --timeout 900",
            "source_commits": hook_commits(),
            "add_only": True,
        },
        "engines": [{"name": e, "path": "harness/%s.cpp" % e, "serves_properties": sorted(ps),
                     "kind_free_text": "rapidcheck property engine (g++, ASan+UBSan+_GLIBCXX_ASSERTIONS) with library-free --replay"}
                    for e, ps in sorted(engines.items())] + [
            {"name": "c17_faults", "path": "vlib/c17_faults.py", "serves_properties": ["C17"], "kind_free_text": "python fault enumerator driving harness/C10_pipeline --startup-batch"},
            {"name": "c17_fuzz", "path": "vlib/c17_fuzz.py", "serves_properties": ["C17"], "kind_free_text": "libFuzzer campaign runner for fuzz/fuzz_mesh.cpp, fuzz_xml.cpp, fuzz_startup.cpp (clang)"}],
        "checks": checks,
        "not_applicable": na,
        "notes": "All checks: bin/check <ID> --tier quick|thorough (env VERIF_SEED). Known findings: known_findings.json. "
                 "Seeded breakages used for sensitivity validation: seeded/<id>/.",
    }
    with open(os.path.join(VERIF, "MANIFEST.json"), "w") as f:
        json.dump(m, f, indent=1)
        f.write("\n")


if __name__ == "__main__":
    main()
