"""Check driver: builds what a property needs from /repo's working tree, replays committed regression inputs,
runs the generated-input campaigns sharded over processes, confirms failures by replaying them outside the
library, compares with known_findings.json and writes evidence/<ID>.json."""
import glob
import hashlib
import json
import os
import re
import shutil
import subprocess
import sys
import time
from concurrent.futures import ThreadPoolExecutor

from . import build
from .registry import PROPERTIES

VERIF = build.VERIF
RUN = os.path.join(build.BUILD, "run")
VIOL = os.path.join(build.BUILD, "violations")
EVIDENCE = os.environ.get("VERIF_EVIDENCE", os.path.join(VERIF, "evidence"))

ENV = dict(os.environ)
ENV["ASAN_OPTIONS"] = "detect_leaks=0:exitcode=77:abort_on_error=0:allocator_may_return_null=1:detect_stack_use_after_return=0"
ENV["UBSAN_OPTIONS"] = "halt_on_error=1:abort_on_error=1:exitcode=77:print_stacktrace=1"
ENV.setdefault("OMP_NUM_THREADS", "1")
ENV.setdefault("OMP_WAIT_POLICY", "passive")
ENV.setdefault("GOMP_SPINCOUNT", "0")


def log(msg):
    sys.stderr.write("[check] %s\n" % msg)
    sys.stderr.flush()


def run_proc(cmd, timeout=None, env=None, cwd=None):
    t0 = time.time()
    try:
        p = subprocess.run(cmd, stdout=subprocess.PIPE, stderr=subprocess.PIPE, timeout=timeout, env=env or ENV, cwd=cwd)
        return p.returncode, p.stdout.decode("utf-8", "replace"), p.stderr.decode("utf-8", "replace"), time.time() - t0
    except subprocess.TimeoutExpired as e:
        out = (e.stdout or b"").decode("utf-8", "replace")
        err = (e.stderr or b"").decode("utf-8", "replace")
        return "timeout", out, err, time.time() - t0


def parse_case_header(path):
    h = {}
    try:
        with open(path) as f:
            for line in f:
                line = line.rstrip("\n")
                if line == "---":
                    break
                k, _, v = line.partition(" ")
                h[k] = v
    except OSError:
        pass
    return h


def replay_once(path, engines):
    """Re-execute a case file through its engine's --replay path.  Returns ('ok'|'violation'|'crash'|'error', text)."""
    h = parse_case_header(path)
    eng, variant = h.get("engine"), h.get("variant", "san")
    if not eng:
        return "error", "no engine header in %s" % path
    exe = engines.get((eng, variant)) or build.ensure_engine(eng, variant, extra_flags=['-DVERIF_VARIANT="%s"' % variant])
    engines[(eng, variant)] = exe
    env = dict(ENV)
    if h.get("threads"):
        env["OMP_NUM_THREADS"] = h["threads"]
    rc, out, err, _ = run_proc([exe, "--replay", path], timeout=1800, env=env)
    if rc == 0:
        return "ok", out.strip()
    if rc == 3:
        m = re.search(r"REPLAY-VIOLATION.*", out)
        return "violation", m.group(0) if m else out.strip()
    if rc == 4:
        return "error", (out + err).strip()[-400:]
    if rc == 78:
        return "hang", "case exceeded the per-case time limit (hang)"
    tail = [l for l in err.splitlines() if "ERROR" in l or "runtime error" in l or "SUMMARY" in l or "Assertion" in l or "terminate" in l]
    return "crash", "process died rc=%s %s" % (rc, " | ".join(tail[:3]) or err.strip()[-300:])


def confirm(path, engines, times=3, hang_is_bad=True):
    """Re-executes a failing case.  A case that only exceeds the per-case time limit is a violation for the properties that claim termination
    (hang_is_bad); for the others a time budget that runs out is inconclusive, never a violation."""
    res = []
    for _ in range(times):
        r = replay_once(path, engines)
        res.append(r)
        if r[0] == "hang" and not hang_is_bad:
            break  # no point in burning the time limit again
        if hang_is_bad and sum(1 for x in res if x[0] == "hang") >= 2:
            break  # the campaign run and two replays exceeded the limit: three observations
    bad = [r for r in res if r[0] in ("violation", "crash") or (r[0] == "hang" and hang_is_bad)]
    return len(bad), (bad[0][1] if bad else res[0][1])


def load_known():
    p = os.path.join(VERIF, "known_findings.json")
    if not os.path.exists(p):
        return []
    with open(p) as f:
        return json.load(f).get("findings", [])


def match_known(pid, msg, header, known):
    for k in known:
        if k.get("property") != pid or k.get("status") != "open":
            continue
        m = k.get("match", {})
        if m.get("engine") and m["engine"] != header.get("engine"):
            continue
        if m.get("sub") and m["sub"] != header.get("sub"):
            continue
        if m.get("msg_regex") and not re.search(m["msg_regex"], msg or ""):
            continue
        return k
    return None


def save_violation(pid, src):
    os.makedirs(os.path.join(VIOL, pid), exist_ok=True)
    with open(src, "rb") as f:
        data = f.read()
    dst = os.path.join(VIOL, pid, hashlib.sha1(data).hexdigest()[:12] + ".case")
    with open(dst, "wb") as f:
        f.write(data)
    return dst


def add_header_line(path, key, value):
    with open(path) as f:
        txt = f.read()
    if re.search(r"^%s " % key, txt, re.M):
        return
    head, sep, body = txt.partition("---\n")
    with open(path, "w") as f:
        f.write(head + "%s %s\n" % (key, value) + sep + body)


def run_check(pid, tier, seed, only_replay=None):
    t0 = time.time()
    spec = PROPERTIES[pid]
    engines = {}
    violations = []   # (replay path, message)
    known_hits = []
    notes = []
    known = load_known()

    if only_replay and os.path.basename(only_replay).startswith("fuzz_"):
        from .c17_fuzz import replay as fuzz_replay
        st, detail = fuzz_replay(only_replay)
        print(("REPLAY-OK " if st == "ok" else "REPLAY-VIOLATION ") + st + " " + detail)
        return 0 if st == "ok" else 1
    if only_replay and only_replay.endswith(".xml"):
        from .c17_faults import replay_xml
        st, detail = replay_xml(only_replay)
        print(("REPLAY-VIOLATION " if st in ("died", "hang") else "REPLAY-OK ") + st + " " + detail)
        return 1 if st in ("died", "hang") else 0
    if only_replay:
        n, msg = confirm(only_replay, engines, times=1, hang_is_bad=bool(spec.get("claims_termination")))
        print(("REPLAY-VIOLATION " if n else "REPLAY-OK ") + msg)
        return 1 if n else 0

    jobs = [j for j in spec["jobs"] if tier in j.get("tiers", ("quick", "thorough"))]
    # 1. build everything needed (variants in parallel; each build is itself parallel)
    need = sorted({(j["engine"], j["variant"]) for j in jobs if j.get("engine")})
    for j in jobs:
        j.setdefault("variant", "san")
    variants = sorted({v for _, v in need} | {v for j in jobs for v in j.get("need_variants", [])})
    with ThreadPoolExecutor(max(1, len(variants))) as ex:
        list(ex.map(build.ensure_lib, variants))
    with ThreadPoolExecutor(max(1, len(need))) as ex:
        exes = list(ex.map(lambda ev: build.ensure_engine(ev[0], ev[1], extra_flags=['-DVERIF_VARIANT="%s"' % ev[1]]), need))
    for ev, exe in zip(need, exes):
        engines[ev] = exe
    log("%s: build ready after %.1fs" % (pid, time.time() - t0))

    # 2. regression replays (committed inputs) first
    replayed = 0
    for path in sorted(glob.glob(os.path.join(VERIF, "replays", pid, "*.case"))):
        kind, msg = replay_once(path, engines)
        replayed += 1
        if kind in ("violation", "crash"):
            n, msg = confirm(path, engines, hang_is_bad=bool(spec.get("claims_termination")))
            if n:
                k = match_known(pid, msg, parse_case_header(path), known)
                if k:
                    known_hits.append((k, msg))
                else:
                    violations.append((path, msg))
        elif kind == "error":
            notes.append("replay %s: %s" % (os.path.basename(path), msg))

    # 3. campaigns
    merged = {"evaluations": 0, "nontrivial": set(), "counters": {}, "samples": [], "per_job": []}
    shard_cmds = []
    shutil.rmtree(os.path.join(RUN, pid), ignore_errors=True)
    for ji, j in enumerate(jobs):
        if j.get("custom"):
            continue
        par = j[tier]
        for sh in range(par.get("shards", 1)):
            out = os.path.join(RUN, pid, "%s-%s-%d-%d" % (j["engine"], j["variant"], ji, sh))
            os.makedirs(out, exist_ok=True)
            cmd = [engines[(j["engine"], j["variant"])], "--out", out, "--seed", str(seed * 1000 + sh * 17 + ji),
                   "--cases", str(par["cases"]), "--max-size", str(par.get("max_size", 100))]
            if par.get("budget_s"):
                cmd += ["--budget-s", str(par["budget_s"])]
            for s in j.get("subs", []):
                cmd += ["--sub", s]
            env = dict(ENV)
            env["OMP_NUM_THREADS"] = str(j.get("threads", 1))
            env.update(j.get("env", {}))
            shard_cmds.append((j, out, cmd, env, par.get("timeout_s", 3600)))

    def run_shard(sc):
        j, out, cmd, env, to = sc
        rc, so, se, dt = run_proc(cmd, timeout=to, env=env)
        with open(os.path.join(out, "stderr.txt"), "w") as f:
            f.write(se[-20000:])
        return sc, rc, so, se, dt

    workers = int(os.environ.get("VERIF_JOBS", str(build.NCPU)))
    with ThreadPoolExecutor(workers) as ex:
        results = list(ex.map(run_shard, shard_cmds))

    pending = []  # (failing case file, job) - confirmed below, in parallel (a case that hangs costs its time limit per replay)
    for (j, out, cmd, env, to), rc, so, se, dt in results:
        st = os.path.join(out, "stats.json")
        if os.path.exists(st):
            try:
                with open(st) as f:
                    s = json.load(f)
                for sub, d in s["subs"].items():
                    merged["evaluations"] += d["evaluations"]
                    merged["nontrivial"].update("%s/%s/%s" % (j["engine"], sub, h) for h in d["nontrivial_hashes"])
                    for k, v in d["counters"].items():
                        key = "%s.%s" % (sub, k) if len(s["subs"]) > 1 or j.get("prefix") else k
                        if j["variant"] != "san":
                            key = "%s[%s]" % (key, j["variant"])
                        merged["counters"][key] = merged["counters"].get(key, 0) + v
                    for smp in d["samples"]:
                        if len(merged["samples"]) < 8:
                            merged["samples"].append("%s/%s[%s]: %s" % (j["engine"], sub, j["variant"], smp))
            except (ValueError, KeyError) as e:
                notes.append("unreadable stats %s: %s" % (st, e))
        fails = []
        if rc == 3:
            fails = sorted(glob.glob(os.path.join(out, "fail.*.case")))
        elif rc == "timeout":
            notes.append("shard timed out after %ss (inconclusive): %s" % (to, " ".join(cmd[-8:])))
            merged["counters"]["shards_timed_out"] = merged["counters"].get("shards_timed_out", 0) + 1
        elif rc != 0:
            cf = os.path.join(out, "crash.case")
            if os.path.exists(cf):
                fails = [cf]
            else:
                tail = se.strip()[-600:]
                notes.append("engine exited rc=%s without a case file: %s" % (rc, tail))
                # an engine dying outside a case is a harness problem, make it loud
                violations.append((os.path.join(out, "stderr.txt"), "engine died outside a case rc=%s %s" % (rc, tail[-200:])))
        for fpath in fails:
            add_header_line(fpath, "variant", j["variant"])
            if j.get("threads", 1) != 1:
                add_header_line(fpath, "threads", str(j["threads"]))
            pending.append(fpath)

    for fpath in pending:  # build the replay engines once, before the pool
        h = parse_case_header(fpath)
        key = (h.get("engine"), h.get("variant", "san"))
        if key[0] and key not in engines:
            engines[key] = build.ensure_engine(key[0], key[1], extra_flags=['-DVERIF_VARIANT="%s"' % key[1]])
    with ThreadPoolExecutor(max(1, min(workers, 8))) as ex:
        confirmed = list(ex.map(lambda fp: confirm(fp, engines, hang_is_bad=bool(spec.get("claims_termination"))), pending))
    if True:
        for fpath, (n, msg) in zip(pending, confirmed):
            hdr = parse_case_header(fpath)
            if n == 0 and "per-case time limit" in (msg or ""):
                keep = save_violation(pid, fpath)
                notes.append("case exceeded the per-case time limit; this property does not claim termination, so the budget running out is "
                             "inconclusive, not a violation (case kept at %s)" % keep)
                merged["counters"]["cases_over_time_limit_inconclusive"] = merged["counters"].get("cases_over_time_limit_inconclusive", 0) + 1
                continue
            if n == 0 and "after this case had returned" in hdr.get("msg", ""):
                # the process died between two cases and the last case alone does not reproduce it: as loud as an engine dying outside a case
                violations.append((save_violation(pid, fpath), "engine died after a case had returned and replaying that case alone does not reproduce it"))
                continue
            if n == 0:
                notes.append("failure did not reproduce in 3 replays (not reported): %s %s" % (fpath, hdr.get("msg", "")))
                merged["counters"]["unreproduced_failures"] = merged["counters"].get("unreproduced_failures", 0) + 1
                continue
            k = match_known(pid, msg + " " + hdr.get("msg", ""), hdr, known)
            if k:
                known_hits.append((k, msg))
            else:
                violations.append((save_violation(pid, fpath), msg or hdr.get("msg", "")))

    # 4. custom (python) jobs
    for j in jobs:
        if not j.get("custom"):
            continue
        res = j["custom"](tier=tier, seed=seed, engines=engines, job=j)
        merged["evaluations"] += res.get("evaluations", 0)
        merged["nontrivial"].update(res.get("nontrivial", []))
        for k, v in res.get("counters", {}).items():
            merged["counters"][k] = merged["counters"].get(k, 0) + v
        merged["samples"] += res.get("samples", [])[:6]
        notes += res.get("notes", [])
        for path, msg in res.get("violations", []):
            k = match_known(pid, msg, parse_case_header(path), known)
            if k:
                known_hits.append((k, msg))
            else:
                violations.append((path, msg))
        for kid, msg in res.get("known_hits", []):
            for kf in known:
                if kf.get("id") == kid and kf.get("status") == "open":
                    known_hits.append((kf, msg))
        if res.get("exhaustive"):
            merged["exhaustive"] = True

    # 5. verdict + evidence
    wall = time.time() - t0
    cov = {
        "evaluations": int(merged["evaluations"]) + replayed,
        "distinct_nontrivial": len(merged["nontrivial"]),
        "rule": spec["rule"],
        "samples": merged["samples"][:10] or ["(no sample recorded)"],
        "classes": dict(sorted(merged["counters"].items())),
        "regression_replays": replayed,
        "build_variants": variants,
    }
    if merged.get("exhaustive"):
        cov["exhaustive"] = True
    if notes:
        cov["notes"] = notes[:20]
    if known_hits:
        cov["known_findings_hit"] = sorted({k["id"] for k, _ in known_hits})
    ev = {
        "property_id": pid, "tier": tier, "seed": int(seed), "level": spec.get("level", "exploration"),
        "coverage": cov, "assumptions": spec.get("assumptions", []), "wall_s": round(wall, 2),
        "violations": len(violations),
    }
    os.makedirs(EVIDENCE, exist_ok=True)
    with open(os.path.join(EVIDENCE, pid + ".json"), "w") as f:
        json.dump(ev, f, indent=1, sort_keys=True)
        f.write("\n")

    seen = set()
    for k, msg in known_hits:
        if k["id"] in seen:
            continue
        seen.add(k["id"])
        print("KNOWN-FINDING: property=%s %s" % (pid, k["what"]))
    for n in notes[:20]:
        log("note: " + n)
    vac = spec.get("min_nontrivial", 2)
    print("%s tier=%s seed=%s evaluations=%d distinct_nontrivial=%d violations=%d wall=%.1fs" %
          (pid, tier, seed, cov["evaluations"], cov["distinct_nontrivial"], len(violations), wall))
    if violations:
        for path, msg in violations[:5]:
            print("VIOLATION property=%s replay=%s" % (pid, path))
            print("  detail: %s" % (msg or "")[:600])
        return 1
    if cov["distinct_nontrivial"] < vac:
        print("VACUOUS property=%s only %d non-trivial cases (minimum %d): generator or build broke" %
              (pid, cov["distinct_nontrivial"], vac))
        return 2
    return 0


def main(argv):
    import argparse
    ap = argparse.ArgumentParser()
    ap.add_argument("property")
    ap.add_argument("--tier", default=os.environ.get("VERIF_TIER", "quick"), choices=["quick", "thorough"])
    ap.add_argument("--replay")
    a = ap.parse_args(argv)
    seed = int(os.environ.get("VERIF_SEED", "1") or "1")
    if a.property not in PROPERTIES:
        sys.stderr.write("unknown property %s\n" % a.property)
        return 4
    return run_check(a.property, a.tier, seed, a.replay)
