// C09 — cell division yields two valid daughters or leaves the mother untouched.
//  sub "single":     divide_cell() on one generated mother with a forced division axis.
//  sub "population": cell_divider::run() on 1-10 cells of which a generated subset is eligible, 1-8 threads.
#include <omp.h>

#include "common/celltools.hpp"
#include "common/engine.hpp"
#include "common/meshgen.hpp"
#include "common/tissuegen.hpp"

#include "cell_divider.hpp"
#include "verif_hooks.hpp"

using namespace vg;

static uint64_t g_seed_state = 1;
static uint64_t next_seed() {
    g_seed_state = g_seed_state * 6364136223846793005ull + 1442695040888963407ull;
    return g_seed_state >> 20;
}

// epithelial cell whose division axis is chosen by the harness (get_cell_division_axis is virtual)
class forced_axis_cell : public epithelial_cell {
  public:
    vec3 axis_;
    bool forced_ = false;
    forced_axis_cell(const std::vector<double>& xyz, const std::vector<unsigned>& tri, unsigned id, cell_type_param_ptr t) : epithelial_cell(xyz, tri, id, t) {}
    vec3 get_cell_division_axis() const noexcept override { return forced_ ? axis_ : get_cell_longest_axis(); }
};

struct AxisSpec {
    int cls = 0;  // 0 random, 1 exact +-xyz, 2 within 1e-9 of an axis, 3 plane through a node, 4 default longest axis
    double v[3] = {0, 0, 1};
    unsigned k = 0;
};
static vec3 make_axis(const AxisSpec& a, cell& C) {
    V3 ax(a.v[0], a.v[1], a.v[2]);
    if (ax.norm() < 1e-3) ax = V3(0, 0, 1);
    ax = ax * (1 / ax.norm());
    switch (a.cls) {
        case 1: {
            static const double E[6][3] = {{1, 0, 0}, {-1, 0, 0}, {0, 1, 0}, {0, -1, 0}, {0, 0, 1}, {0, 0, -1}};
            const double* e = E[a.k % 6];
            return vec3(e[0], e[1], e[2]);
        }
        case 2: {
            static const double E[6][3] = {{1, 0, 0}, {-1, 0, 0}, {0, 1, 0}, {0, -1, 0}, {0, 0, 1}, {0, 0, -1}};
            const double* e = E[a.k % 6];
            V3 p(e[0] + 1e-9 * a.v[0], e[1] + 1e-9 * a.v[1], e[2] + 1e-9 * a.v[2]);
            p = p * (1 / p.norm());
            return ct::to_vec3(p);
        }
        case 3: {
            // plane through the centroid that contains node k: axis orthogonal to (node - centroid)
            auto& nl = cell_tester::nodes(C);
            V3 cen = ct::to_v3(C.compute_centroid());
            V3 r = ct::to_v3(nl[a.k % nl.size()].pos()) - cen;
            V3 n = r.cross(ax);
            if (n.norm() < 1e-9 * r.norm()) n = r.cross(V3(0.3, -0.7, 0.2));
            n = n * (1 / n.norm());
            return ct::to_vec3(n);
        }
        default: return ct::to_vec3(ax);
    }
}

struct SCase {
    TriMesh mesh;
    AxisSpec axis;
    double lmin_f = 0.15;  // l_min / cell size
    uint64_t seed = 1;
    double vt_f = 1.37;     // mother's target volume / its volume (compressed, relaxed or stretched mother)
    double minvol_f = 0.0;  // the cell type's minimum volume / the mother's volume
    std::string shape;
    void write(vf::Writer& w) const {
        mg::write_mesh(w, mesh);
        w.i(axis.cls), w.d(axis.v[0]), w.d(axis.v[1]), w.d(axis.v[2]), w.u(axis.k), w.d(lmin_f), w.u(seed);
        w.d(vt_f), w.d(minvol_f);
        w.nl();
    }
    static SCase read(vf::Reader& r) {
        SCase c;
        c.mesh = mg::read_mesh(r);
        c.axis.cls = (int)r.i(), c.axis.v[0] = r.d(), c.axis.v[1] = r.d(), c.axis.v[2] = r.d(), c.axis.k = (unsigned)r.u(), c.lmin_f = r.d(), c.seed = r.u();
        if (r.more()) c.vt_f = r.d(), c.minvol_f = r.d();
        return c;
    }
};
static rc::Gen<AxisSpec> genAxis() {
    using namespace vf;
    return rc::gen::exec([]() {
        AxisSpec a;
        a.cls = *rc::gen::weightedElement<int>({{4, 0}, {2, 1}, {1, 2}, {2, 3}, {2, 4}});
        for (double& v : a.v) v = *uniform(-1, 1);
        a.k = (unsigned)*irange(0, 10000);
        return a;
    });
}
static rc::Gen<SCase> genS() {
    using namespace vf;
    return rc::gen::exec([]() {
        SCase c;
        mg::ShapeSpec s = *mg::genShape(2);
        if (s.family <= 2 || s.family >= 4) s.refine.clear();
        if (*irange(0, 1)) s = mg::ShapeSpec(), s.family = 3, s.param = *irange(1, 2), s.sx = *uniform(0.7, 1.6), s.sy = *uniform(0.7, 1.4), s.bump_amp = *uniform(-0.3, 0.3), s.bump_k = *irange(1, 3);
        mg::Placement pl = *mg::genPlacement(true);
        if (pl.mag_class == 4) pl.mag_class = 2, pl.t[0] /= 100, pl.t[1] /= 100, pl.t[2] /= 100;
        // a dividing cell is much larger than the remeshing length: at least 60 triangles
        if (mg::build_shape(s).nt() < 60) s.family = 3, s.param = *irange(1, 2), s.refine.clear();
        c.mesh = mg::place(mg::build_shape(s), pl);
        c.shape = s.describe();
        c.axis = *genAxis();
        c.lmin_f = *uniform(0.05, 0.3);
        c.seed = (uint64_t)*irange(1, 1 << 30);
        // the statement: each daughter inherits half of the mother's target volume - whatever the pressure state of the mother and wherever
        // the type's minimum volume lies (the removal threshold; a daughter below it is removed later by the solver, not by the division)
        c.vt_f = *rc::gen::element(1.37, 1.37, 1.0, 0.8, 0.6, 2.5);
        c.minvol_f = *rc::gen::element(0.0, 0.0, 1e-3, 0.2, 0.33, 0.45, 0.7);
        if (*irange(0, 7) == 0) {
            // the opposite corner: a mother that is coarse relative to l_min - a regular octahedron or icosahedron cut along a body diagonal,
            // through the midpoints of its edges, so that the daughters need no collapse at all (or the division fails cleanly)
            mg::ShapeSpec r;
            r.family = *rc::gen::element(1, 3);
            r.param = 0;
            mg::Placement q;
            q.scale = *rc::gen::element(1.0, 1e-6, 3.7);
            for (double& v : q.t) v = *uniform(-3, 3) * q.scale;
            c.mesh = mg::place(mg::build_shape(r), q);
            c.shape = "coarse regular " + r.describe();
            c.axis = AxisSpec();
            c.axis.cls = 0;
            c.axis.v[0] = *rc::gen::element(1.0, -1.0), c.axis.v[1] = *rc::gen::element(1.0, -1.0), c.axis.v[2] = *rc::gen::element(1.0, -1.0);
            c.lmin_f = *uniform(0.05, 0.3);
        }
        return c;
    });
}

struct Snap {
    std::vector<double> xyz;
    std::vector<std::array<unsigned, 3>> tri;
    double vt, vol;
    unsigned id;
};
static Snap take(cell& C) {
    Snap s;
    for (auto& n : cell_tester::nodes(C)) s.xyz.push_back(n.pos().dx()), s.xyz.push_back(n.pos().dy()), s.xyz.push_back(n.pos().dz());
    for (auto& f : cell_tester::faces(C)) s.tri.push_back(cell_tester::face_ids(f));
    s.vt = C.get_target_volume();
    s.vol = C.get_volume();
    s.id = C.get_id();
    return s;
}
static bool same(const Snap& a, const Snap& b) { return a.xyz == b.xyz && a.tri == b.tri && a.vt == b.vt && a.id == b.id; }

// the success-branch oracle for one daughter pair
static std::string check_daughters(cell_ptr d1, cell_ptr d2, const std::type_info& mother_type, cell_type_param_ptr mtype, const V3& cen, const V3& n,
                                   double lmax, ld Vm, double vt_mother, ld size, vf::Ctx& ctx) {
    std::ostringstream os;
    os << std::setprecision(12);
    cell_ptr ds[2] = {d1, d2};
    if (!d1 || !d2) return "a daughter is null";
    ld vsum = 0;
    int side[2] = {0, 0};
    for (int i = 0; i < 2; i++) {
        cell& D = *ds[i];
        if (typeid(D) != mother_type) return std::string("daughter has type ") + typeid(D).name() + " instead of the mother's type";
        if (D.get_cell_type() != mtype) return "daughter does not share the mother's cell-type parameters";
        for (auto& nd : cell_tester::nodes(D))
            if (nd.is_used() && !(std::isfinite(nd.pos().dx()) && std::isfinite(nd.pos().dy()) && std::isfinite(nd.pos().dz()))) return "daughter has a non-finite coordinate";
        std::string t = ct::topo_check(D);
        if (!t.empty()) return "daughter " + std::to_string(i + 1) + ": " + t;
        if (D.get_target_volume() != vt_mother / 2) {
            os << "daughter target volume " << D.get_target_volume() << " is not half of the mother's " << vt_mother;
            return os.str();
        }
        ld smin = 1e300, smax = -1e300;
        for (auto& nd : cell_tester::nodes(D))
            if (nd.is_used()) {
                ld s = (ct::to_v3(nd.pos()) - cen).dot(n);
                smin = std::min(smin, s), smax = std::max(smax, s);
            }
        if (smin >= -(ld)lmax) side[i] = 1;
        else if (smax <= (ld)lmax) side[i] = -1;
        else {
            os << "daughter " << i + 1 << " straddles the division plane: signed distances of its nodes range over [" << (double)smin << "," << (double)smax << "], l_max = " << lmax;
            return os.str();
        }
        vsum += fabsl(vg::signed_volume(ct::snapshot(D)));
    }
    if (side[0] == side[1] && !(side[0] == 1 && side[1] == 1 && false)) {
        // both within l_max of the plane on the same side is only possible for degenerate slivers
        ld s1 = 0, s2 = 0;
        for (auto& nd : cell_tester::nodes(*d1))
            if (nd.is_used()) s1 += (ct::to_v3(nd.pos()) - cen).dot(n);
        for (auto& nd : cell_tester::nodes(*d2))
            if (nd.is_used()) s2 += (ct::to_v3(nd.pos()) - cen).dot(n);
        if (s1 * s2 > 0) return "both daughters lie on the same side of the division plane";
    }
    // remeshing tolerance: relative to the resolution l_max / diameter (diameter ~ bounding diagonal / sqrt(3))
    const ld tau = std::min<ld>(0.6, std::max<ld>(0.05, 1.2 * (ld)lmax / (size / sqrtl(3.0L))));
    if (1.2 * (ld)lmax / (size / sqrtl(3.0L)) > 1.0) {
        // l_max of the order of the mother's diameter (a 20-face mother remeshed with edges as long as itself): the resolution does not
        // constrain the volume any more; the other clauses still apply
        ctx.count("volume_clause_not_applicable_at_this_resolution");
        return "";
    }
    ctx.count("volume_defect_permille_" + std::to_string((int)std::min<ld>(999, fabsl(vsum - Vm) / Vm * 1000)));
    if (fabsl(vsum - Vm) > tau * Vm) {
        os << "daughter volumes add up to " << (double)vsum << ", the mother's volume was " << (double)Vm << " (allowed relative defect " << (double)tau << ")";
        return os.str();
    }
    return "";
}

static std::string runS(const SCase& k, vf::Ctx& ctx) {
    ct::CellScope scope;
    auto type = ct::default_cell_type(3);
    std::shared_ptr<forced_axis_cell> m;
    try {
        m = std::make_shared<forced_axis_cell>(k.mesh.xyz, k.mesh.tri, 7, type);
        m->initialize_cell_properties();
    } catch (const std::exception& e) {
        return std::string("cell rejects generated mesh: ") + e.what();
    }
    scope.add(m);
    const ld size = vg::mesh_size(k.mesh);
    // the mother comes out of the solver with (almost all) edges inside [l_min, 3 l_min]: place l_min relative to its edges
    const ld emin = vg::min_edge(k.mesh), emax = vg::max_edge(k.mesh);
    ld lo = emax / 3 * 1.02, hi = emin * 0.98;
    double lmin = (double)(lo <= hi ? lo + (hi - lo) * ((k.lmin_f - 0.05) / 0.25) : std::min<ld>(hi, std::max<ld>(lo * 0.6, emin * 0.6)));
    const double lmax = 3 * lmin;
    local_mesh_refiner lmr(lmin, lmax, true);
    m->forced_ = k.axis.cls != 4;
    m->axis_ = make_axis(k.axis, *m);
    type->min_vol_ = m->get_volume() * k.minvol_f;
    cell_tester::target_volume(*m) = m->get_volume() * k.vt_f;
    if (k.minvol_f * 2 > k.vt_f) ctx.count("half_of_the_target_below_the_minimum_volume");
    if (k.vt_f < 1) ctx.count("stretched_mother");
    // reference copy: what the mother looks like after its own compaction
    forced_axis_cell ref_copy(*m);
    const V3 cen = ct::to_v3(m->compute_centroid());
    const vec3 ax = m->get_cell_division_axis();
    const V3 n = ct::to_v3(ax);
    const ld Vm = fabsl(vg::signed_volume(k.mesh));
    const Snap before = take(*m);
    simucell3d_verif::seed_source() = next_seed;
    g_seed_state = k.seed;
    srand((unsigned)k.seed);
    std::optional<std::pair<cell_ptr, cell_ptr>> res;
    res = cell_divider::divide_cell(m, lmin, lmr);  // noexcept: anything escaping terminates the process (a crash verdict)
    simucell3d_verif::seed_source() = nullptr;
    static const char* AX[] = {"random", "exact_axis", "near_axis", "through_node", "longest"};
    if (!res.has_value()) {
        ctx.count(std::string("failed_axis_") + AX[k.axis.cls]);
        // mother untouched (it was already compact: freshly initialised)
        if (!same(before, take(*m))) return "division failed but the mother cell was modified";
        std::string t = ct::topo_check(*m);
        if (!t.empty()) return "division failed and left the mother invalid: " + t;
        return "";
    }
    scope.add(res->first);
    scope.add(res->second);
    ctx.count(std::string("succeeded_axis_") + AX[k.axis.cls]);
    if (!same(before, take(*m))) return "a successful division modified the mother before the caller replaced it";
    std::string msg = check_daughters(res->first, res->second, typeid(epithelial_cell), type, cen, n, lmax, Vm, before.vt, size, ctx);
    if (!msg.empty()) return msg;
    ctx.nontriv();
    std::ostringstream s2;
    s2 << k.shape << " tris=" << k.mesh.nt() << " axis=" << AX[k.axis.cls] << "(" << ax.dx() << "," << ax.dy() << "," << ax.dz() << ") lmin/size=" << k.lmin_f
       << " daughters " << res->first->get_nb_of_faces() << "+" << res->second->get_nb_of_faces() << " faces";
    ctx.sample(s2.str());
    return "";
}

// ---------------------------------------------------------------------------------------------- population
struct PCase {
    int n = 3, threads = 1, level = 1;
    std::vector<int> eligible, cls;
    std::vector<AxisSpec> axes;
    double lmin_f = 0.15;
    uint64_t seed = 1;
    void write(vf::Writer& w) const {
        w.i(n), w.i(threads), w.i(level), w.d(lmin_f), w.u(seed);
        for (int i = 0; i < n; i++) w.i(eligible[i]), w.i(cls[i]), w.i(axes[i].cls), w.d(axes[i].v[0]), w.d(axes[i].v[1]), w.d(axes[i].v[2]), w.u(axes[i].k);
        w.nl();
    }
    static PCase read(vf::Reader& r) {
        PCase c;
        c.n = (int)r.i(), c.threads = (int)r.i(), c.level = (int)r.i(), c.lmin_f = r.d(), c.seed = r.u();
        for (int i = 0; i < c.n; i++) {
            c.eligible.push_back((int)r.i());
            c.cls.push_back((int)r.i());
            AxisSpec a;
            a.cls = (int)r.i(), a.v[0] = r.d(), a.v[1] = r.d(), a.v[2] = r.d(), a.k = (unsigned)r.u();
            c.axes.push_back(a);
        }
        return c;
    }
};
static rc::Gen<PCase> genP() {
    using namespace vf;
    return rc::gen::exec([]() {
        PCase c;
        c.n = *irange(1, 10);
        c.threads = *rc::gen::element(1, 2, 3, 4, 8);
        c.level = *irange(1, 2);
        c.lmin_f = *uniform(0.08, 0.25);
        c.seed = (uint64_t)*irange(1, 1 << 30);
        const int mode = *irange(0, 3);  // 0 none, 1 some, 2..3 most/all eligible
        for (int i = 0; i < c.n; i++) {
            c.eligible.push_back(mode == 0 ? 0 : mode == 1 ? *irange(0, 2) == 0 : mode == 2 ? *irange(0, 3) != 0 : 1);
            c.cls.push_back(*rc::gen::weightedElement<int>({{8, 0}, {1, 2}, {1, 4}}));
            c.axes.push_back(*genAxis());
        }
        return c;
    });
}

static std::string runP(const PCase& k, vf::Ctx& ctx) {
    ct::CellScope scope;
    auto type = ct::default_cell_type(3);
    auto other = ct::default_cell_type(3);
    std::vector<cell_ptr> cells;
    std::vector<V3> cen, nrm;
    std::vector<ld> vol;
    const double R = 1.0;
    for (int i = 0; i < k.n; i++) {
        TriMesh m = tg::ball(k.level, R * (0.8 + 0.05 * (i % 5)), V3(4.0 * i, 0.3 * i, 0), 1.0 + 0.07 * (i % 3), 1.0, 0.9);
        cell_ptr c;
        if (k.cls[i] == 0) {
            auto f = std::make_shared<forced_axis_cell>(m.xyz, m.tri, (unsigned)i, type);
            f->initialize_cell_properties();
            f->forced_ = k.axes[i].cls != 4;
            f->axis_ = make_axis(k.axes[i], *f);
            c = f;
        } else {
            other->global_type_id_ = (short)k.cls[i];
            c = ct::make_cell_of_class(k.cls[i], m, (unsigned)i, other);
        }
        c->set_local_id((unsigned)i);
        c->set_target_volume(c->get_volume() * (1.1 + 0.01 * i));
        cell_tester::division_volume(*c) = k.eligible[i] ? c->get_volume() * 0.5 : c->get_volume() * 10;
        scope.add(c);
        cells.push_back(c);
        cen.push_back(ct::to_v3(c->compute_centroid()));
        nrm.push_back(ct::to_v3(c->get_cell_division_axis()));
        vol.push_back(fabsl(vg::signed_volume(m)));
    }
    type->avg_division_vol_ = 1e300;  // daughters must not be eligible again for the bookkeeping below
    // l_min inside the band the (solver-refined) mothers already satisfy
    ld emin = 1e300, emax = 0;
    for (auto& c : cells) {
        TriMesh mm = ct::snapshot(*c);
        emin = std::min(emin, vg::min_edge(mm)), emax = std::max(emax, vg::max_edge(mm));
    }
    const ld lo = emax / 3 * 1.02, hi = emin * 0.98;
    const double size = 2 * R, lmin = (double)(lo <= hi ? lo + (hi - lo) * ((k.lmin_f - 0.08) / 0.17) : hi), lmax = 3 * lmin;
    local_mesh_refiner lmr(lmin, lmax, true);
    std::vector<Snap> before;
    for (auto& c : cells) before.push_back(take(*c));
    std::vector<cell_ptr> original = cells;
    unsigned max_id = (unsigned)k.n;
    omp_set_num_threads(k.threads);
    simucell3d_verif::seed_source() = next_seed;
    g_seed_state = k.seed;
    srand((unsigned)k.seed);
    cell_divider::run(cells, lmin, lmr, max_id, false);
    simucell3d_verif::seed_source() = nullptr;
    omp_set_num_threads(1);
    scope.add(cells);
    std::ostringstream os;
    // bookkeeping
    std::set<unsigned> ids;
    for (size_t i = 0; i < cells.size(); i++) {
        if (!cells[i]) return "null cell in the population after division";
        if (!ids.insert(cells[i]->get_id()).second) {
            os << "two cells share id " << cells[i]->get_id() << " after dividing";
            return os.str();
        }
    }
    std::map<unsigned, cell_ptr> by_id;
    for (auto& c : cells) by_id[c->get_id()] = c;
    int divided = 0, would = 0;
    std::vector<cell_ptr> fresh;
    for (auto& c : cells)
        if (c->get_id() >= (unsigned)k.n) fresh.push_back(c);
    for (int i = 0; i < k.n; i++) {
        const bool can = k.cls[i] == 0 && k.eligible[i];
        would += can;
        auto it = by_id.find((unsigned)i);
        if (it != by_id.end()) {
            // survived: must be the same object, bit-unchanged
            if (it->second != original[i]) return "a surviving cell was replaced by another object";
            if (!same(before[i], take(*original[i]))) {
                os << "cell " << i << (can ? " (division failed)" : " (not eligible)") << " was modified although it did not divide";
                return os.str();
            }
        } else {
            if (!can) {
                os << "cell " << i << " was not eligible for division but disappeared from the population";
                return os.str();
            }
            divided++;
        }
    }
    if ((int)fresh.size() != 2 * divided) {
        os << divided << " mothers disappeared but " << fresh.size() << " new cells appeared";
        return os.str();
    }
    if (max_id != (unsigned)k.n + 2 * divided) return "the id counter does not match the number of daughters created";
    if ((int)cells.size() != k.n + divided) return "population size is not n + number of divisions";
    if (divided > 0)
        for (size_t i = 0; i < cells.size(); i++)
            if (cells[i]->get_local_id() != i) {
                os << "after divisions the cell at position " << i << " carries position index " << cells[i]->get_local_id();
                return os.str();
            }
    // every daughter pair belongs to one mother: match by side of that mother's plane
    std::vector<bool> used(fresh.size(), false);
    for (int i = 0; i < k.n; i++) {
        if (by_id.count((unsigned)i)) continue;
        // two unused fresh cells whose node means are closest to this mother's centroid
        std::vector<std::pair<ld, size_t>> cand;
        for (size_t j = 0; j < fresh.size(); j++) {
            if (used[j]) continue;
            V3 g;
            size_t nn = 0;
            for (auto& nd : cell_tester::nodes(*fresh[j]))
                if (nd.is_used()) g = g + ct::to_v3(nd.pos()), nn++;
            cand.push_back({(g * ((ld)1 / nn) - cen[i]).norm(), j});
        }
        std::sort(cand.begin(), cand.end());
        if (cand.size() < 2 || cand[1].first > 2.5 * R) return "could not find two daughters near a mother that disappeared";
        used[cand[0].second] = used[cand[1].second] = true;
        std::string msg = check_daughters(fresh[cand[0].second], fresh[cand[1].second], typeid(epithelial_cell), type, cen[i], nrm[i], lmax, vol[i], before[i].vt, size * sqrtl(3.0L), ctx);
        if (!msg.empty()) return "mother " + std::to_string(i) + ": " + msg;
    }
    ctx.count("eligible_cells", would);
    ctx.count("divided_cells", divided);
    if (divided >= 2 && k.threads >= 2) ctx.count("simultaneous_divisions_multithreaded");
    if (divided >= 1) {
        ctx.nontriv();
        std::ostringstream s2;
        s2 << k.n << " cells, " << would << " eligible, " << divided << " divided, threads " << k.threads << ", lmin/size " << k.lmin_f;
        ctx.sample(s2.str());
    }
    return "";
}

int main(int argc, char** argv) {
    std::vector<vf::Sub> subs;
    subs.push_back(vf::make_sub<SCase>("single", genS, runS));
    subs.push_back(vf::make_sub<PCase>("population", genP, runP));
    return vf::engine_main(argc, argv, "C09_division", subs);
}
