// C12 — volume, area, centroid, bounding box and normals are exact and frame-independent.
#include "common/celltools.hpp"
#include "common/engine.hpp"
#include "common/meshgen.hpp"

using namespace vg;

struct Case {
    TriMesh base;          // closed mesh near the origin, outward wound (before permutation / flips / placement)
    mg::Placement pl;      // placement of the reference cell
    mg::Placement pl2;     // second frame for the metamorphic clauses
    std::vector<unsigned> perm1, perm2;
    int flips1 = 0, flips2 = 0;
    int extra_nodes = 0;   // unused nodes appended to the input
    double lambda = 1;     // uniform scaling for the cube/square law
    int ellipsoid = 0;
    unsigned rough = 0;    // != 0: after the clauses on the fresh cell, real edge collapses / splits leave unused node and face slots and the
                           // geometry functions are judged again on that cell
    std::string shape;
    void write(vf::Writer& w) const {
        mg::write_mesh(w, base);
        pl.write(w);
        pl2.write(w);
        w.nl();
        w.vu(perm1);
        w.vu(perm2);
        w.i(flips1), w.i(flips2), w.i(extra_nodes), w.d(lambda), w.i(ellipsoid);
        w.u(rough);
        w.nl();
    }
    static Case read(vf::Reader& r) {
        Case c;
        c.base = mg::read_mesh(r);
        c.pl = mg::Placement::read(r);
        c.pl2 = mg::Placement::read(r);
        c.perm1 = r.vu();
        c.perm2 = r.vu();
        c.flips1 = (int)r.i(), c.flips2 = (int)r.i(), c.extra_nodes = (int)r.i(), c.lambda = r.d(), c.ellipsoid = (int)r.i();
        if (r.more()) c.rough = (unsigned)r.u();
        return c;
    }
};

static rc::Gen<Case> genCase() {
    using namespace vf;
    return rc::gen::exec([]() {
        Case c;
        c.ellipsoid = *irange(0, 3) == 0;
        mg::ShapeSpec s;
        if (c.ellipsoid) {
            s.family = 3;
            s.param = *irange(1, 2);
            double a = *uniform(1.3, 3.0), b = *uniform(0.5, 1.0), cc = *uniform(0.5, 1.0);
            int ax = *irange(0, 2);
            s.sx = ax == 0 ? a : b;
            s.sy = ax == 1 ? a : (ax == 0 ? cc : b);
            s.sz = ax == 2 ? a : cc;
            // in half of the cases the sampling is made irregular: repeated 1-to-3 splits of a few neighbouring faces pile nodes up on one
            // side, so that the mean of the nodes is not the (area-weighted) centroid of the surface
            if (*irange(0, 1)) {
                const int nref = *irange(4, 14);
                const unsigned f0 = (unsigned)*irange(0, 60);
                for (int i = 0; i < nref; i++) s.refine.push_back({f0 + (unsigned)*irange(0, 3), 0});
            }
        } else {
            s = *mg::genShape(2);
        }
        c.shape = s.describe();
        c.base = mg::build_shape(s);
        c.pl = *mg::genPlacement(true);
        c.pl2 = *mg::genPlacement(false);
        c.pl2.scale = 1;
        for (double& v : c.pl2.t) v *= c.pl.scale;  // translation classes are relative to the cell size
        for (int i = 0; i < 3; i++) c.perm1.push_back((unsigned)*irange(0, 1 << 20));
        for (int i = 0; i < 3; i++) c.perm2.push_back((unsigned)*irange(0, 1 << 20));
        c.flips1 = *irange(0, 1);
        c.flips2 = *irange(0, 1);
        c.extra_nodes = *rc::gen::element(0, 0, 1, 3);
        c.lambda = *rc::gen::element(2.0, 0.5, 3.0, 1e-3, 10.0, 0.37);
        if (*irange(0, 2) == 0) c.rough = (unsigned)*irange(1, 1 << 20);
        return c;
    });
}

struct Geo {
    double vol, area;
    V3 cen;
    std::array<double, 6> box;
    V3 axis;
    ld D, s;
    size_t F;
};

// builds a cell from the mesh, checks the absolute clauses against the independent geometry; fills g
static std::string absolute_clauses(const TriMesh& in, int extra_nodes, Geo& g, ct::CellScope& scope, const char* tag, bool& flipped_input, unsigned rough = 0,
                                    vf::Ctx* ctx = nullptr) {
    TriMesh m = in;
    // independent facts about the input: which triangles are wound inward (star-shaped about the placed centre
    // is not needed: the exact signed volume of the correctly wound mesh decides)
    for (int i = 0; i < extra_nodes; i++) mg::add_node(m, 1e3 * (i + 1), -2e3, 5e2);  // unused nodes, far away
    std::shared_ptr<epithelial_cell> c;
    try {
        c = ct::make_cell<epithelial_cell>(m, 0, ct::default_cell_type(1));
    } catch (const std::exception& e) {
        return std::string(tag) + ": initialisation rejects a closed genus-0 mesh: " + e.what();
    }
    scope.add(c);
    cell& C = *c;
    // orientation / bookkeeping via the independent oracle (cached normals vs winding, positive volume, edge set ...)
    std::string t = ct::topo_check(C);
    if (!t.empty()) return std::string(tag) + ": after initialisation: " + t;
    TriMesh live = ct::snapshot(C);
    // windings changed by the initialisation = input triangles that were wound inward
    flipped_input = false;
    for (size_t f = 0; f < in.nt(); f++) {
        auto ids = cell_tester::face_ids(cell_tester::faces(C)[f]);
        unsigned a = in.tri[3 * f], b = in.tri[3 * f + 1], cc = in.tri[3 * f + 2];
        bool same = (ids[0] == a && ids[1] == b && ids[2] == cc) || (ids[0] == b && ids[1] == cc && ids[2] == a) || (ids[0] == cc && ids[1] == a && ids[2] == b);
        if (!same) flipped_input = true;
    }
    TriMesh ref = in;  // independent quantities from the input coordinates with the repaired windings
    ref.tri = live.tri;
    ref.xyz = in.xyz;
    g.F = in.nt();
    g.s = vg::mesh_size(ref);
    g.D = vg::dist_from_origin(ref);
    const ld V = fabsl(vg::signed_volume(ref)), A = vg::area(ref);
    g.vol = C.get_volume();
    g.area = C.get_area();
    std::ostringstream os;
    os << std::setprecision(17);
    const ld tolV = 32 * (ld)g.F * EPS * powl(g.D + g.s, 3) + 1e-300;
    if (fabsl(g.vol - V) > tolV) {
        os << tag << ": reported volume " << g.vol << " but the enclosed volume is " << (double)V << " (tol " << (double)tolV << ", D/s = " << (double)(g.D / g.s) << ")";
        return os.str();
    }
    if (fabsl(C.compute_volume() - V) > tolV) return std::string(tag) + ": compute_volume() disagrees with the enclosed volume";
    ld tolA = 0;
    for (size_t f = 0; f < ref.nt(); f++) {
        V3 a = ref.p(ref.tri[3 * f]), b = ref.p(ref.tri[3 * f + 1]), cc = ref.p(ref.tri[3 * f + 2]);
        tolA += 32 * EPS * (g.D + g.s) * std::max((b - a).norm(), std::max((cc - a).norm(), (cc - b).norm()));
    }
    if (fabsl(g.area - A) > tolA) {
        os << tag << ": reported area " << g.area << " but the sum of triangle areas is " << (double)A << " (tol " << (double)tolA << ")";
        return os.str();
    }
    V3 cen = ct::to_v3(C.compute_centroid());
    V3 cref = vg::area_centroid(ref);
    g.cen = cen;
    // centroid: sum of (face centroid * area) / area; error from areas (relative tolA/A) times the spread, plus coordinate rounding
    const ld tolC = 64 * EPS * (g.D + g.s) * (1 + (ld)g.F / 16) + (tolA / A) * (g.D + g.s) * 4;
    if ((cen - cref).norm() > tolC) {
        os << tag << ": centroid (" << (double)cen.x << "," << (double)cen.y << "," << (double)cen.z << ") but the area-weighted mean of triangle centroids is ("
           << (double)cref.x << "," << (double)cref.y << "," << (double)cref.z << ") (tol " << (double)tolC << ")";
        return os.str();
    }
    g.box = C.get_aabb();
    auto bref = vg::aabb(ref);
    if (g.box != bref) {
        os << tag << ": bounding box [" << g.box[0] << "," << g.box[1] << "," << g.box[2] << " .. " << g.box[3] << "," << g.box[4] << "," << g.box[5]
           << "] is not the tight box of the live nodes [" << bref[0] << "," << bref[1] << "," << bref[2] << " .. " << bref[3] << "," << bref[4] << "," << bref[5] << "]";
        return os.str();
    }
    g.axis = ct::to_v3(C.get_cell_longest_axis());
    if (rough && ct::leave_free_slots(c, 3 + (int)(rough % 7), rough) > 0) {
        // the same geometry functions on a cell with unused node / face slots (caches refreshed the way the force computation does)
        C.update_all_face_normals_and_areas();
        cell_tester::area(C) = C.compute_area();
        TriMesh lv = ct::snapshot(C);
        const ld V2 = fabsl(vg::signed_volume(lv)), A2 = vg::area(lv);
        std::string tg2 = std::string(tag) + ", after collapses / splits left unused slots";
        if (fabsl(C.compute_volume() - V2) > 2 * tolV) {
            os << tg2 << ": compute_volume() = " << C.compute_volume() << " but the enclosed volume is " << (double)V2;
            return os.str();
        }
        if (fabsl(C.compute_area() - A2) > 2 * tolA + 1e-300) {
            os << tg2 << ": compute_area() = " << C.compute_area() << " but the sum of triangle areas is " << (double)A2;
            return os.str();
        }
        V3 cen2 = ct::to_v3(C.compute_centroid()), cref2 = vg::area_centroid(lv);
        if ((cen2 - cref2).norm() > 2 * tolC) {
            os << tg2 << ": centroid (" << (double)cen2.x << "," << (double)cen2.y << "," << (double)cen2.z << ") but the area-weighted mean of triangle centroids is ("
               << (double)cref2.x << "," << (double)cref2.y << "," << (double)cref2.z << ")";
            return os.str();
        }
        std::array<double, 6> b2 = {1e300, 1e300, 1e300, -1e300, -1e300, -1e300};
        for (size_t t = 0; t < lv.tri.size(); t++)
            for (int q = 0; q < 3; q++) {
                const double x = lv.xyz[3 * lv.tri[t] + q];
                b2[q] = std::min(b2[q], x), b2[3 + q] = std::max(b2[3 + q], x);
            }
        auto got = C.get_aabb();
        if (got != b2) {
            os << tg2 << ": bounding box [" << got[0] << "," << got[1] << "," << got[2] << " .. " << got[3] << "," << got[4] << "," << got[5] << "] is not the tight box of the live nodes ["
               << b2[0] << "," << b2[1] << "," << b2[2] << " .. " << b2[3] << "," << b2[4] << "," << b2[5] << "]";
            return os.str();
        }
        if (ctx) ctx->count("geometry_on_cell_with_unused_slots");
    }
    return "";
}

static std::string run(const Case& k, vf::Ctx& ctx) {
    ct::CellScope scope;
    // reference frame
    TriMesh m1 = mg::permute(mg::place(k.base, k.pl), k.perm1, k.flips1 != 0);
    Geo g1, g2, g3;
    bool fl1 = false, fl2 = false, fl3 = false;
    std::string msg = absolute_clauses(m1, k.extra_nodes, g1, scope, "frame 1", fl1, k.rough, &ctx);
    if (!msg.empty()) return msg;
    // second frame: extra rigid motion, other numbering, other winding mix
    TriMesh placed = mg::place(k.base, k.pl);
    TriMesh moved = mg::place(placed, k.pl2);
    TriMesh m2 = mg::permute(moved, k.perm2, k.flips2 != 0);
    msg = absolute_clauses(m2, 0, g2, scope, "frame 2 (moved, renumbered)", fl2);
    if (!msg.empty()) return msg;
    std::ostringstream os;
    os << std::setprecision(17);
    {
        const ld tolV = 32 * (ld)g1.F * EPS * (powl(g1.D + g1.s, 3) + powl(g2.D + g2.s, 3)) + 16 * EPS * (g1.D + g2.D + g1.s) * g1.area;
        if (fabsl((ld)g1.vol - g2.vol) > tolV) {
            os << "volume changes under rigid motion / renumbering: " << g1.vol << " vs " << g2.vol << " (tol " << (double)tolV << ")";
            return os.str();
        }
        const ld tolA = 64 * EPS * (g1.D + g2.D + g1.s) * (ld)g1.F * g1.s;
        if (fabsl((ld)g1.area - g2.area) > tolA) {
            os << "area changes under rigid motion / renumbering: " << g1.area << " vs " << g2.area << " (tol " << (double)tolA << ")";
            return os.str();
        }
    }
    // uniform scaling about the origin of the unplaced mesh, then the same placement rotation (no translation)
    {
        mg::Placement ps = k.pl;
        ps.scale = k.pl.scale * k.lambda;
        for (double& v : ps.t) v *= k.lambda;
        TriMesh m3 = mg::permute(mg::place(k.base, ps), k.perm1, k.flips1 != 0);
        msg = absolute_clauses(m3, 0, g3, scope, "frame 3 (scaled)", fl3);
        if (!msg.empty()) return msg;
        const ld l = k.lambda;
        const ld tolV = 32 * (ld)g1.F * EPS * (powl(g1.D + g1.s, 3) * l * l * l + powl(g3.D + g3.s, 3)) + 32 * EPS * g3.vol * (1 + g1.D / g1.s) * g1.F;
        if (fabsl((ld)g1.vol * l * l * l - g3.vol) > tolV) {
            os << "volume does not scale with lambda^3: " << g1.vol << " * " << k.lambda << "^3 vs " << g3.vol;
            return os.str();
        }
        const ld tolA = 64 * EPS * (g3.D + g3.s) * (ld)g1.F * g3.s * 2;
        if (fabsl((ld)g1.area * l * l - g3.area) > tolA) {
            os << "area does not scale with lambda^2: " << g1.area << " * " << k.lambda << "^2 vs " << g3.area;
            return os.str();
        }
    }
    // longest axis follows the rotation (ellipsoids with a clear longest axis)
    if (k.ellipsoid) {
        V3 expect = k.pl2.motion().q.rot(g1.axis);
        ld d = fabsl(expect.dot(g2.axis));
        if (!(d >= 1 - 1e-6) || fabsl(g1.axis.norm() - 1) > 1e-9) {
            os << "longest axis does not follow the rotation: |a2 . R a1| = " << (double)d;
            return os.str();
        }
        // and it is the long axis of the ellipsoid: compare with the direction of the farthest node pair
        ctx.count("axis_clause_checked");
        if (k.base.nn() != 42 && k.base.nn() != 162 && k.base.nn() != 12) ctx.count("axis_clause_checked_on_irregular_sampling");
    }
    ctx.count(fl1 ? "input_with_inward_triangles" : "input_all_outward");
    if (g1.D >= 10 * g1.s) ctx.count("far_from_origin");
    if (k.extra_nodes) ctx.count("with_unused_input_nodes");
    if (fl1 && g1.D >= 10 * g1.s) {
        ctx.nontriv();
        std::ostringstream s2;
        s2 << k.shape << " tris=" << g1.F << " D/s=" << (double)(g1.D / g1.s) << " V=" << g1.vol << " A=" << g1.area << " lambda=" << k.lambda;
        ctx.sample(s2.str());
    }
    return "";
}

int main(int argc, char** argv) {
    std::vector<vf::Sub> subs;
    subs.push_back(vf::make_sub<Case>("geometry", genCase, run));
    return vf::engine_main(argc, argv, "C12_geometry", subs);
}
