// C02 — internal forces conserve momentum and derive from the stated energies.
// Terms are isolated through the cell_tester friend (pressure, tension+area elasticity, bending, angle
// regularisation) and also exercised together through the public apply_internal_forces().
#include "common/celltools.hpp"
#include "common/engine.hpp"
#include "common/meshgen.hpp"

using namespace vg;

struct Case {
    TriMesh mesh;
    std::vector<unsigned> labels;  // face type per triangle
    int n_face_types = 1;
    std::vector<double> tension, bending;  // per face type
    double bulk = 1, area_mod = 0, iso_ratio = 150, angle_reg = 0, vt_factor = 1.2, max_pressure = 1e300;
    double q[4] = {1, 0, 0, 0}, tr[3] = {0, 0, 0};  // rigid motion for the covariance clause
    unsigned rough = 0;  // != 0: the cell first undergoes real edge collapses / splits that leave unused node and face slots (the state of
                         // most cells in a running simulation); the covariance clause is then skipped (it needs two identically built cells)
    std::string shape;
    void write(vf::Writer& w) const {
        mg::write_mesh(w, mesh);
        w.vu(labels);
        w.i(n_face_types);
        w.vd(tension);
        w.vd(bending);
        w.d(bulk), w.d(area_mod), w.d(iso_ratio), w.d(angle_reg), w.d(vt_factor), w.d(max_pressure);
        for (double v : q) w.d(v);
        for (double v : tr) w.d(v);
        w.u(rough);
        w.nl();
    }
    static Case read(vf::Reader& r) {
        Case c;
        c.mesh = mg::read_mesh(r);
        c.labels = r.vu();
        c.n_face_types = (int)r.i();
        c.tension = r.vd();
        c.bending = r.vd();
        c.bulk = r.d(), c.area_mod = r.d(), c.iso_ratio = r.d(), c.angle_reg = r.d(), c.vt_factor = r.d(), c.max_pressure = r.d();
        for (double& v : c.q) v = r.d();
        for (double& v : c.tr) v = r.d();
        if (r.more()) c.rough = (unsigned)r.u();
        return c;
    }
};

static rc::Gen<Case> genCase() {
    using namespace vf;
    return rc::gen::exec([]() {
        Case c;
        mg::ShapeSpec s = *mg::genShape(2);
        mg::Placement pl = *mg::genPlacement(true);
        if (pl.mag_class == 4 && *irange(0, 1)) pl.mag_class = 3, pl.t[0] /= 10, pl.t[1] /= 10, pl.t[2] /= 10;
        c.mesh = mg::permute(mg::place(mg::build_shape(s), pl), {(unsigned)*irange(0, 1 << 20), (unsigned)*irange(0, 1 << 20)}, false);
        c.shape = s.describe();
        c.n_face_types = *irange(1, 4);
        for (int i = 0; i < c.n_face_types; i++) {
            c.tension.push_back(*rc::gen::oneOf(rc::gen::just(0.0), loguniform(1e-4, 1e2)));
            c.bending.push_back(*rc::gen::oneOf(rc::gen::just(0.0), loguniform(1e-6, 1e1)));
        }
        for (size_t t = 0; t < c.mesh.nt(); t++) c.labels.push_back((unsigned)*irange(0, c.n_face_types - 1));
        c.bulk = *loguniform(1e-2, 1e4);
        c.area_mod = *rc::gen::oneOf(rc::gen::just(0.0), loguniform(1e-3, 1e3));
        c.iso_ratio = *uniform(100., 400.);
        c.angle_reg = *rc::gen::oneOf(rc::gen::just(0.0), loguniform(1e-6, 1e1));
        c.vt_factor = *rc::gen::element(1.0, 1.3, 0.8, 2.0, 1.05);
        c.max_pressure = *rc::gen::element(1e300, 1e300, 0.01);
        for (double& v : c.q) v = *uniform(-1, 1);
        const double sz = (double)vg::mesh_size(c.mesh);
        const double mag = *rc::gen::element(0.0, 1.0, 10.0, 100.0);
        for (double& v : c.tr) v = *uniform(-1, 1) * mag * sz;
        if (*irange(0, 2) == 0) c.rough = (unsigned)*irange(1, 1 << 20);
        return c;
    });
}

struct Built {
    std::shared_ptr<epithelial_cell> c;
    std::shared_ptr<cell_type_parameters> type;
};

static Built build(const Case& k, const TriMesh& m) {
    Built b;
    b.type = ct::default_cell_type(k.n_face_types);
    b.type->bulk_modulus_ = k.bulk;
    b.type->area_elasticity_modulus_ = k.area_mod;
    b.type->target_isoperimetric_ratio_ = k.iso_ratio;
    b.type->angle_regularization_factor_ = k.angle_reg;
    b.type->max_pressure_ = k.max_pressure >= 1e299 ? std::numeric_limits<double>::infinity() : k.max_pressure;
    for (int i = 0; i < k.n_face_types; i++) {
        b.type->face_types_[i].surface_tension_ = k.tension[i];
        b.type->face_types_[i].bending_modulus_ = k.bending[i];
    }
    b.c = ct::make_cell<epithelial_cell>(m, 0, b.type);
    // labels follow the triangle of the *input* list: initialisation may flip windings but keeps face slots
    auto& fl = cell_tester::faces(*b.c);
    for (size_t t = 0; t < fl.size() && t < k.labels.size(); t++) cell_tester::face_type(fl[t]) = (unsigned short)k.labels[t];
    if (k.rough) ct::leave_free_slots(b.c, 3 + (int)(k.rough % 7), k.rough);
    cell_tester::target_volume(*b.c) = b.c->get_volume() * k.vt_factor;
    return b;
}

static void refresh(cell& C) {  // what apply_internal_forces does before applying any term
    C.update_all_face_normals_and_areas();
    cell_tester::area(C) = C.compute_area();
    cell_tester::volume(C) = C.compute_volume();
    cell_tester::update_target_volume(C, 0.);
    C.update_pressure();
}
static std::vector<V3> take_forces(cell& C) {
    std::vector<V3> f;
    for (auto& n : cell_tester::nodes(C)) {
        f.push_back(ct::to_v3(n.force()));
        cell_tester::force(n).reset();
    }
    return f;
}

struct Scales {
    ld D, emin, size, Q;  // distance from origin, shortest edge, diameter, worst triangle conditioning
    ld cond;              // 256 eps (1 + D/emin) Q
};
static Scales scales(const TriMesh& m) {
    Scales s;
    s.D = vg::dist_from_origin(m);
    s.emin = vg::min_edge(m);
    s.size = vg::mesh_size(m);
    s.Q = 1;
    for (size_t t = 0; t < m.nt(); t++) {
        V3 a = m.p(m.tri[3 * t]), b = m.p(m.tri[3 * t + 1]), c = m.p(m.tri[3 * t + 2]);
        ld L = std::max((b - a).norm(), std::max((c - a).norm(), (c - b).norm()));
        ld A = vg::tri_area(a, b, c);
        if (A > 0) s.Q = std::max(s.Q, L * L / (2 * A));
        else s.Q = 1e30;
    }
    s.cond = 256 * EPS * (1 + s.D / s.emin) * s.Q;
    return s;
}

static std::string check_balance(const char* term, const TriMesh& m, const std::vector<V3>& F, ld scale, const Scales& sc) {
    V3 g = vg::vertex_mean(m), sf, st;
    ld sabs = 0;
    for (size_t i = 0; i < F.size(); i++) {
        sf = sf + F[i];
        st = st + (m.p(i) - g).cross(F[i]);
        sabs += F[i].norm();
    }
    const ld S = std::max(scale, sabs);
    const ld tol = sc.cond * S + 1e-300;
    std::ostringstream os;
    os << std::setprecision(6);
    for (auto& f : F)
        if (!std::isfinite((double)f.n2())) return std::string(term) + ": non-finite force";
    if (sf.norm() > tol) {
        os << term << ": net force |sum F| = " << (double)sf.norm() << " exceeds " << (double)tol << " (sum |F_i| = " << (double)sabs << ")";
        return os.str();
    }
    if (st.norm() > tol * sc.size) {
        os << term << ": net torque |sum r x F| = " << (double)st.norm() << " exceeds " << (double)(tol * sc.size) << " (sum |F_i| = "
           << (double)sabs << ", size " << (double)sc.size << ")";
        return os.str();
    }
    return "";
}

static std::string run(const Case& k, vf::Ctx& ctx) {
    const TriMesh& m0 = k.mesh;
    Scales sc = scales(m0);
    if (sc.cond > 1e-5) {
        ctx.count("skipped_ill_conditioned");
        return "";
    }
    ct::CellScope scope;
    Built b;
    try {
        b = build(k, m0);
    } catch (const std::exception& e) {
        return std::string("cell rejects a generated closed mesh: ") + e.what();
    }
    scope.add(b.c);
    cell& C = *b.c;
    // geometry as the cell sees it after initialisation (windings repaired)
    TriMesh m = ct::snapshot(C);
    const auto& fl = cell_tester::faces(C);
    const size_t nn = m.nn();
    {
        // unused node slots hold (0,0,0): give them the position of a live node so that no extent / mean of the reference geometry sees them
        const auto& nlc = cell_tester::nodes(C);
        size_t live0 = 0;
        while (live0 < nlc.size() && !nlc[live0].is_used()) live0++;
        for (size_t i = 0; i < nlc.size() && live0 < nlc.size(); i++)
            if (!nlc[i].is_used())
                for (int q = 0; q < 3; q++) m.xyz[3 * i + q] = m.xyz[3 * live0 + q];
    }
    std::vector<unsigned> slot_of_tri;  // triangle of the snapshot -> face slot (they differ once the cell has unused face slots)
    for (auto& t : ct::live_triangles(C)) slot_of_tri.push_back(t[3]);
    const bool has_free_slots = !cell_tester::free_faces(C).empty() || !cell_tester::free_nodes(C).empty();
    if (k.rough) {
        sc = scales(m);
        if (sc.cond > 1e-5) {
            ctx.count("skipped_ill_conditioned");
            return "";
        }
        if (has_free_slots) ctx.count("cell_with_unused_slots");
    }
    refresh(C);
    const ld P = C.get_pressure(), A = C.get_area(), V = C.get_volume();
    const ld A0 = cbrtl((ld)k.iso_ratio * V * V);
    std::vector<ld> tau(fl.size());
    ld sumA = 0, tens_scale = 0;
    for (size_t t = 0; t < m.nt(); t++) {
        V3 a = m.p(m.tri[3 * t]), bb = m.p(m.tri[3 * t + 1]), c = m.p(m.tri[3 * t + 2]);
        ld ar = vg::tri_area(a, bb, c);
        sumA += ar;
        tau[t] = (ld)k.tension[cell_tester::face_type(fl[slot_of_tri[t]])] + ((ld)k.area_mod / A0) * (A / A0 - 1);
        tens_scale += fabsl(tau[t]) * ((bb - a).norm() + (c - a).norm() + (c - bb).norm());
    }
    V3 g = vg::vertex_mean(m);

    // ---------------- pressure
    cell_tester::apply_pressure(C);
    std::vector<V3> Fp = take_forces(C);
    std::string msg = check_balance("pressure", m, Fp, fabsl(P) * sumA, sc);
    if (!msg.empty()) return msg;
    {
        std::vector<V3> gradV(nn);
        std::vector<ld> nodeA(nn, 0);
        for (size_t t = 0; t < m.nt(); t++) {
            unsigned i = m.tri[3 * t], j = m.tri[3 * t + 1], l = m.tri[3 * t + 2];
            V3 a = m.p(i) - g, bb = m.p(j) - g, c = m.p(l) - g;
            gradV[i] = gradV[i] + bb.cross(c) * (1 / 6.0L);
            gradV[j] = gradV[j] + c.cross(a) * (1 / 6.0L);
            gradV[l] = gradV[l] + a.cross(bb) * (1 / 6.0L);
            ld ar = vg::tri_area(a, bb, c);
            nodeA[i] += ar, nodeA[j] += ar, nodeA[l] += ar;
        }
        // spot check of the closed form against central finite differences of the independent volume
        {
            size_t i = (size_t)(fabs(k.q[0]) * 1e6) % nn;
            TriMesh mm = m;
            for (double& v : mm.xyz) v = v;  // copy
            ld h = 1e-5 * sc.emin;
            V3 fd;
            for (int ax = 0; ax < 3; ax++) {
                TriMesh mp = m, mn = m;
                // shift relative coordinates in long double by editing a relative copy
                auto vol_with = [&](ld delta) {
                    ld v = 0;
                    for (size_t t = 0; t < m.nt(); t++) {
                        V3 p[3];
                        for (int q = 0; q < 3; q++) {
                            p[q] = m.p(m.tri[3 * t + q]) - g;
                            if (m.tri[3 * t + q] == i) (ax == 0 ? p[q].x : ax == 1 ? p[q].y : p[q].z) += delta;
                        }
                        v += p[0].dot(p[1].cross(p[2]));
                    }
                    return v / 6;
                };
                ld d = (vol_with(h) - vol_with(-h)) / (2 * h);
                (ax == 0 ? fd.x : ax == 1 ? fd.y : fd.z) = d;
            }
            if ((fd - gradV[i]).norm() > 1e-5 * (gradV[i].norm() + nodeA[i] * 1e-3))
                return "harness self-check failed: closed-form volume gradient disagrees with finite differences";
        }
        for (size_t i = 0; i < nn; i++) {
            if (!cell_tester::node_used(cell_tester::nodes(C)[i])) continue;
            V3 want = gradV[i] * P;
            ld tol = sc.cond * fabsl(P) * nodeA[i] + 1e-300;
            if ((Fp[i] - want).norm() > tol) {
                std::ostringstream os;
                os << std::setprecision(9) << "pressure force on node " << i << " = (" << (double)Fp[i].x << "," << (double)Fp[i].y << ","
                   << (double)Fp[i].z << ") but P*dV/dx = (" << (double)want.x << "," << (double)want.y << "," << (double)want.z
                   << "), P=" << (double)P << " tol " << (double)tol;
                return os.str();
            }
        }
    }
    // ---------------- tension + area elasticity
    cell_tester::apply_tension(C);
    std::vector<V3> Ft = take_forces(C);
    msg = check_balance("tension/elasticity", m, Ft, tens_scale, sc);
    if (!msg.empty()) return msg;
    {
        std::vector<V3> want(nn);
        std::vector<ld> nscale(nn, 0), nlen(nn, 0);
        for (size_t t = 0; t < m.nt(); t++) {
            unsigned id[3] = {m.tri[3 * t], m.tri[3 * t + 1], m.tri[3 * t + 2]};
            V3 p[3] = {m.p(id[0]) - g, m.p(id[1]) - g, m.p(id[2]) - g};
            ld ar = vg::tri_area(p[0], p[1], p[2]);
            if (!(ar > 0)) continue;  // the code (legitimately) skips zero-area faces
            for (int q = 0; q < 3; q++) {
                // dA/dx_q = |e|^2 h / (4A), h = component of (x_q - x_r) orthogonal to the opposite edge e
                V3 e = p[(q + 2) % 3] - p[(q + 1) % 3], d = p[q] - p[(q + 1) % 3];
                V3 h = d - e * (d.dot(e) / e.n2());
                V3 gradA = h * (e.n2() / (4 * ar));
                want[id[q]] = want[id[q]] - gradA * tau[t];
                nscale[id[q]] += fabsl(tau[t]) * e.norm();
                nlen[id[q]] += e.norm();
            }
        }
        for (size_t i = 0; i < nn; i++) {
            if (!cell_tester::node_used(cell_tester::nodes(C)[i])) continue;
            // rounding of (A/A0 - 1) in double: absolute error on every tau
            const ld dtau = 16 * EPS * ((ld)k.area_mod / A0) * (A / A0 + 1);
            ld tol = sc.cond * nscale[i] + dtau * nlen[i] + 1e-300;
            if ((Ft[i] - want[i]).norm() > tol) {
                std::ostringstream os;
                os << std::setprecision(9) << "tension/elasticity force on node " << i << " = (" << (double)Ft[i].x << "," << (double)Ft[i].y
                   << "," << (double)Ft[i].z << ") but -sum tau dA/dx = (" << (double)want[i].x << "," << (double)want[i].y << ","
                   << (double)want[i].z << ") tol " << (double)tol;
                return os.str();
            }
        }
    }
    // ---------------- bending
    bool any_bending = false;
    for (double bm : k.bending) any_bending |= bm != 0;
    cell_tester::apply_bending(C);
    std::vector<V3> Fb = take_forces(C);
    ld bscale = 0, ascale = 0;
    {
        // scale of the individual contributions: k * (|e|/A-ish terms); conservative bound from geometry
        ld kmax = 0;
        for (double bm : k.bending) kmax = std::max<ld>(kmax, bm);
        for (const edge& e : cell_tester::edges(C)) {
            ld L = (m.p(e.n1()) - m.p(e.n2())).norm();
            ld a1 = cell_tester::face_area(fl[e.f1()]), a2 = cell_tester::face_area(fl[e.f2()]);
            if (a1 > 0 && a2 > 0) bscale += kmax * (12 * L / (a1 + a2) + 6 * L * L * L / ((a1 + a2) * std::min(a1, a2)) * (1 + sc.Q));
        }
        msg = check_balance("bending", m, Fb, bscale, sc);
        if (!msg.empty()) return msg;
    }
    // ---------------- angle regularisation
    C.regularize_all_face_angles();
    std::vector<V3> Fa = take_forces(C);
    {
        for (size_t t = 0; t < m.nt(); t++) {
            V3 a = m.p(m.tri[3 * t]), bb = m.p(m.tri[3 * t + 1]), c = m.p(m.tri[3 * t + 2]);
            ld emin = std::min((bb - a).norm(), std::min((c - a).norm(), (c - bb).norm()));
            if (emin > 0) ascale += (ld)k.angle_reg * 12 * sc.Q / emin;
        }
        msg = check_balance("angle regularisation", m, Fa, ascale, sc);
        if (!msg.empty()) return msg;
    }
    // ---------------- everything through the public entry point
    C.apply_internal_forces(0.);
    std::vector<V3> Fall = take_forces(C);
    ld total_scale = fabsl(P) * sumA + tens_scale + bscale + ascale;
    for (auto& f : Fb) total_scale += f.norm();
    for (auto& f : Fa) total_scale += f.norm();
    msg = check_balance("all internal forces", m, Fall, total_scale, sc);
    if (!msg.empty()) return msg;
    for (size_t i = 0; i < nn; i++) {
        V3 sum = Fp[i] + Ft[i] + Fb[i] + Fa[i];
        if ((Fall[i] - sum).norm() > 64 * EPS * total_scale + 1e-300) {  // re-association of the per-face contributions
            std::ostringstream os;
            os << "apply_internal_forces on node " << i << " is not the sum of the four terms";
            return os.str();
        }
    }
    // ---------------- a second evaluation after a non-rigid deformation, with nothing refreshed in between (what the solver does at every
    // time step): the public entry point must bring every cached quantity it uses up to date itself. Reference = the four terms applied one
    // by one after the harness's own refresh of the same geometry (each of them was held to its oracle above).
    {
        const V3 cen = vg::vertex_mean(m);
        for (auto& n : cell_tester::nodes(C)) {
            if (!cell_tester::node_used(n)) continue;
            V3 r = ct::to_v3(n.pos()) - cen;
            V3 q(cen.x + r.x * 1.15L + r.y * 0.05L, cen.y + r.y * 0.9L, cen.z + r.z * 1.06L - r.x * 0.03L);
            cell_tester::pos(n).reset((double)q.x, (double)q.y, (double)q.z);
        }
        C.apply_internal_forces(0.);
        std::vector<V3> F2 = take_forces(C);
        refresh(C);
        cell_tester::apply_pressure(C);
        cell_tester::apply_tension(C);
        cell_tester::apply_bending(C);
        C.regularize_all_face_angles();
        std::vector<V3> S2 = take_forces(C);
        ld scale2 = total_scale;
        for (size_t i = 0; i < nn; i++) scale2 += F2[i].norm() + S2[i].norm();
        for (size_t i = 0; i < nn; i++) {
            if ((F2[i] - S2[i]).norm() > 1e-9L * scale2 + 1e-300) {
                std::ostringstream os;
                os << "second apply_internal_forces after a non-rigid deformation: force on node " << i << " is (" << (double)F2[i].x << "," << (double)F2[i].y << ","
                   << (double)F2[i].z << ") but the four terms evaluated on freshly recomputed areas, volume and pressure give (" << (double)S2[i].x << ","
                   << (double)S2[i].y << "," << (double)S2[i].z << ")";
                return os.str();
            }
        }
        ctx.count("second_evaluation_after_deformation");
    }
    // ---------------- covariance under rigid motion
    if (!k.rough) {
        vg::Motion mo;
        mo.q = vg::Quat::from(k.q[0], k.q[1], k.q[2], k.q[3]);
        mo.t = V3(k.tr[0], k.tr[1], k.tr[2]);
        TriMesh mm = m0;
        for (size_t i = 0; i < mm.nn(); i++) {
            auto r = mo.applyd(m0.xyz[3 * i], m0.xyz[3 * i + 1], m0.xyz[3 * i + 2]);
            mm.xyz[3 * i] = r[0], mm.xyz[3 * i + 1] = r[1], mm.xyz[3 * i + 2] = r[2];
        }
        Scales sc2 = scales(mm);
        if (sc2.cond <= 1e-8 && sc.cond <= 1e-8) {
            Built b2 = build(k, mm);
            scope.add(b2.c);
            // same target volume and label assignment as the reference cell (labels follow input slots)
            cell_tester::target_volume(*b2.c) = cell_tester::target_volume(C);
            bool same_winding = true;
            for (size_t t = 0; t < fl.size(); t++)
                if (cell_tester::face_ids(cell_tester::faces(*b2.c)[t]) != cell_tester::face_ids(fl[t])) same_winding = false;
            if (same_winding) {
                // Same scalar state (area, volume, pressure) in both cells, so that only the geometric part of each
                // term is compared: the dependence of P on the rounding of V is C04/C12 material, not covariance.
                cell& C2 = *b2.c;
                refresh(C2);
                cell_tester::area(C2) = (double)A;
                cell_tester::volume(C2) = (double)V;
                cell_tester::pressure(C2) = (double)P;
                std::vector<ld> nodeA(nn, 0), nten(nn, 0);
                for (size_t t = 0; t < m.nt(); t++) {
                    unsigned id[3] = {m.tri[3 * t], m.tri[3 * t + 1], m.tri[3 * t + 2]};
                    ld ar = vg::tri_area(m.p(id[0]), m.p(id[1]), m.p(id[2]));
                    ld per = (m.p(id[0]) - m.p(id[1])).norm() + (m.p(id[1]) - m.p(id[2])).norm() + (m.p(id[2]) - m.p(id[0])).norm();
                    for (int q = 0; q < 3; q++) nodeA[id[q]] += ar, nten[id[q]] += fabsl(tau[t]) * per;
                }
                ld bsum = 0, asum = 0;
                for (auto& f : Fb) bsum += f.norm();
                for (auto& f : Fa) asum += f.norm();
                const ld cc = (sc.cond + sc2.cond) * 16;
                // discrete decisions inside the terms (hinge skipped above 135 deg, triangle skipped when an angle is
                // below 10 / above 170 deg): a configuration within 1e-5 rad of a threshold may legitimately flip
                bool bend_tie = false, ang_tie = false;
                for (const edge& e : cell_tester::edges(C)) {
                    auto t1 = cell_tester::face_ids(fl[e.f1()]), t2 = cell_tester::face_ids(fl[e.f2()]);
                    V3 n1 = (m.p(t1[1]) - m.p(t1[0])).cross(m.p(t1[2]) - m.p(t1[0])), n2 = (m.p(t2[1]) - m.p(t2[0])).cross(m.p(t2[2]) - m.p(t2[0]));
                    if (n1.norm() > 0 && n2.norm() > 0) {
                        ld th = acosl(std::max((ld)-1, std::min((ld)1, n1.dot(n2) / (n1.norm() * n2.norm()))));
                        if (fabsl(th - 135 * M_PIl / 180) < 1e-5) bend_tie = true;
                    }
                }
                for (size_t t = 0; t < m.nt(); t++)
                    for (int q = 0; q < 3; q++) {
                        V3 u = m.p(m.tri[3 * t + (q + 1) % 3]) - m.p(m.tri[3 * t + q]), v = m.p(m.tri[3 * t + (q + 2) % 3]) - m.p(m.tri[3 * t + q]);
                        if (u.norm() > 0 && v.norm() > 0) {
                            ld an = acosl(std::max((ld)-1, std::min((ld)1, u.dot(v) / (u.norm() * v.norm()))));
                            if (fabsl(an - 10 * M_PIl / 180) < 1e-5 || fabsl(an - 170 * M_PIl / 180) < 1e-5) ang_tie = true;
                        }
                    }
                struct Term { const char* name; std::vector<V3>* ref; int which; };
                Term terms[4] = {{"pressure", &Fp, 0}, {"tension/elasticity", &Ft, 1}, {"bending", &Fb, 2}, {"angle regularisation", &Fa, 3}};
                for (auto& tm : terms) {
                    if ((tm.which == 2 && bend_tie) || (tm.which == 3 && ang_tie)) {
                        ctx.count("covariance_tie_inconclusive");
                        continue;
                    }
                    if (tm.which == 0) cell_tester::apply_pressure(C2);
                    else if (tm.which == 1) cell_tester::apply_tension(C2);
                    else if (tm.which == 2) cell_tester::apply_bending(C2);
                    else C2.regularize_all_face_angles();
                    std::vector<V3> F2 = take_forces(C2);
                    for (size_t i = 0; i < nn; i++) {
                        V3 want = mo.q.rot((*tm.ref)[i]);
                        ld scale = tm.which == 0 ? fabsl(P) * nodeA[i] : tm.which == 1 ? nten[i] : tm.which == 2 ? (bsum + bscale) * (1 + sc.Q) : (asum + ascale) * (1 + sc.Q);
                        ld tol = cc * (scale + want.norm()) + 1e-300;
                        // the hinge angle is acos(n1.n2): for nearly flat hinges its rounding error is sqrt(eps)
                        if (tm.which == 2) tol += 16 * sqrtl(EPS) * (bsum + bscale);
                        if ((F2[i] - want).norm() > tol) {
                            std::ostringstream os;
                            os << std::setprecision(9) << tm.name << " force field does not move rigidly with the cell: node " << i
                               << " |F'-R F| = " << (double)(F2[i] - want).norm() << " tol " << (double)tol << " |F| = " << (double)want.norm();
                            return os.str();
                        }
                    }
                }
                ctx.count("covariance_checked");
            } else ctx.count("covariance_skipped_winding_differs");
        } else ctx.count("covariance_skipped_conditioning");
    }
    // ---------------- classification
    std::set<unsigned> used_types(k.labels.begin(), k.labels.end());
    const bool off_origin = sc.D > sc.size;
    if (any_bending) ctx.count("bending_nonzero");
    if (k.angle_reg != 0) ctx.count("angle_reg_nonzero");
    if (P != 0) ctx.count("pressure_nonzero");
    if (off_origin) ctx.count("off_origin");
    if (used_types.size() >= 2 && P != 0 && any_bending && off_origin) {
        ctx.nontriv();
        std::ostringstream os;
        os << k.shape << " tris=" << m.nt() << " D/size=" << (double)(sc.D / sc.size) << " P=" << (double)P << " types=" << used_types.size()
           << " k_a=" << k.area_mod << " angle_reg=" << k.angle_reg;
        ctx.sample(os.str());
    }
    return "";
}

int main(int argc, char** argv) {
    std::vector<vf::Sub> subs;
    subs.push_back(vf::make_sub<Case>("forces", genCase, run));
    return vf::engine_main(argc, argv, "C02_forces", subs);
}
