// C10 — no invalid memory access or undefined behaviour anywhere in a simulation.
// The engine generates whole scenarios (parameter file + input mesh on disk) and runs a main-equivalent
//     simulation_initializer -> solver -> run() -> destructors
// in CHILD PROCESSES of this same (sanitized) binary:
//   oracle 1: any ASan / UBSan / _GLIBCXX_ASSERTIONS report, signal or terminate in a child = violation
//             (an exception reported the way main() reports it is fine);
//   oracle 2: the same scenario, single-threaded, under heap fill bytes 0x00 / 0x55 / 0xBE / 0xFF
//             (ASAN_OPTIONS=max_malloc_fill_size=2^30:malloc_fill_byte=..) must produce identical output digests:
//             results must not depend on the contents of uninitialised heap memory;
//   oracle 3 (thorough, plain variant): the child under valgrind --error-exitcode.
// Child modes (also used by the C17 fault enumeration):
//   --child <params.xml> <threads> <seed>      full pipeline, prints "DIGEST <hex>" and "SUMMARY ..."
//   --startup-batch <listfile>                 start-up only (initializer) for every parameter file listed
#include <omp.h>
#include <sys/wait.h>
#include <unistd.h>

#include "common/celltools.hpp"
#include "common/engine.hpp"
#include "common/polygen.hpp"
#include "common/tissuegen.hpp"
#include "common/xmlgen.hpp"

#include "simulation_initializer.hpp"
#include "solver.hpp"
#include "verif_hooks.hpp"

using namespace vg;

static uint64_t g_seed_state = 1;
static uint64_t next_seed() {
    static omp_lock_t* lk = [] {
        auto* l = new omp_lock_t;
        omp_init_lock(l);
        return l;
    }();
    omp_set_lock(lk);
    g_seed_state = g_seed_state * 6364136223846793005ull + 1442695040888963407ull;
    uint64_t r = g_seed_state >> 20;
    omp_unset_lock(lk);
    return r;
}

static uint64_t hash_file(const std::string& path, bool strip_clock) {
    std::ifstream f(path);
    std::string line;
    uint64_t h = 1469598103934665603ull;
    while (std::getline(f, line)) {
        if (strip_clock) {  // simulation_statistics.csv: the 2nd column is wall-clock time
            size_t a = line.find(','), b = a == std::string::npos ? a : line.find(',', a + 1);
            if (b != std::string::npos) line.erase(a, b - a);
        }
        for (unsigned char c : line) h = (h ^ c) * 1099511628211ull;
        h = (h ^ '\n') * 1099511628211ull;
    }
    return h;
}

static int child_main(const std::string& xml, int threads, uint64_t seed) {
    simucell3d_verif::seed_source() = next_seed;
    g_seed_state = seed;
    srand((unsigned)seed);
    std::string outdir;
    int status = 0;
    size_t n0 = 0, n1 = 0;
    unsigned maxid = 0;
    {
        solver solver_;
        try {
            simulation_initializer sim_init(xml, false);
            outdir = sim_init.get_simulation_parameters().output_folder_path_;
            n0 = sim_init.get_cell_lst().size();
            solver_ = solver(sim_init.get_simulation_parameters(), sim_init.get_cell_lst(), threads, false, false);
            solver_.run();
            n1 = solver_.get_cell_lst().size();
            for (auto& c : solver_.get_cell_lst()) maxid = std::max(maxid, c->get_id());
        } catch (std::exception const& e) {
            printf("EXCEPTION %s\n", e.what());
            status = 1;
        }
        // break the cell <-> face cycles so that LeakSanitizer-free teardown still runs every destructor
        for (auto& c : solver_.get_cell_lst())
            if (c) c->clear_data();
    }
    uint64_t h = 1469598103934665603ull;
    if (!outdir.empty() && std::filesystem::exists(outdir)) {
        std::vector<std::string> files;
        for (auto& e : std::filesystem::recursive_directory_iterator(outdir))
            if (e.is_regular_file()) files.push_back(e.path().string());
        std::sort(files.begin(), files.end());
        for (auto& f : files) {
            h = (h ^ vf::fnv1a(f.substr(outdir.size()))) * 1099511628211ull;
            h = (h ^ hash_file(f, f.find("simulation_statistics.csv") != std::string::npos)) * 1099511628211ull;
        }
        printf("FILES %zu\n", files.size());
    }
    printf("SUMMARY status=%d cells0=%zu cells1=%zu maxid=%u\n", status, n0, n1, maxid);
    printf("DIGEST %016llx\n", (unsigned long long)h);
    return 0;
}

static int startup_batch(const std::string& listfile) {
    std::ifstream f(listfile);
    std::string xml;
    size_t i = 0;
    while (std::getline(f, xml)) {
        if (xml.empty()) continue;
        printf("BEGIN %zu\n", i);
        fflush(stdout);
        try {
            simulation_initializer sim_init(xml, false);
            // an input that start-up accepts must have been turned into cells the solver can work on: closed surfaces whose bookkeeping
            // agrees with their triangle lists (combinatorial clauses only: a mutated coordinate may legitimately flatten or invert a cell)
            std::string broken;
            for (auto& c : sim_init.get_cell_lst()) {
                if (!c) {
                    broken = "a null cell";
                    break;
                }
                ct::TopoOpts o;
                o.check_cached_normals = false, o.check_positive_volume = false;
                std::string t = c->get_nb_of_faces() < 4 ? std::string("fewer than 4 faces") : ct::topo_check(*c, o);
                if (!t.empty() && broken.empty()) broken = t;
            }
            for (auto& c : sim_init.get_cell_lst())
                if (c) c->clear_data();
            if (broken.empty()) printf("DONE %zu completed\n", i);
            else printf("DONE %zu broken start-up completed without diagnosing the input but handed over %s\n", i, broken.substr(0, 160).c_str());
        } catch (std::exception const& e) {
            std::string w = e.what();
            for (auto& ch : w)
                if (ch == '\n') ch = ' ';
            printf("DONE %zu exception %s | %s\n", i, typeid(e).name(), w.substr(0, 120).c_str());
        }
        fflush(stdout);
        i++;
    }
    return 0;
}

// ---------------------------------------------------------------------------------------------- scenario
struct Case {
    tg::Tissue tissue;
    int polygonal = 0, triangulate = 0, threads = 1, iterations = 20;
    double lmin_f = 0.5, cut_f = 0.2, S_f = 3;
    uint64_t seed = 1;
    int dynamics = 0;  // 0 gentle, 1 stiff contact
    void write(vf::Writer& w) const {
        tissue.write(w);
        w.i(polygonal), w.i(triangulate), w.i(threads), w.i(iterations), w.d(lmin_f), w.d(cut_f), w.d(S_f), w.u(seed), w.i(dynamics);
        w.nl();
    }
    static Case read(vf::Reader& r) {
        Case c;
        c.tissue = tg::Tissue::read(r);
        c.polygonal = (int)r.i(), c.triangulate = (int)r.i(), c.threads = (int)r.i(), c.iterations = (int)r.i(), c.lmin_f = r.d(), c.cut_f = r.d(), c.S_f = r.d(),
        c.seed = r.u(), c.dynamics = (int)r.i();
        return c;
    }
};
static rc::Gen<Case> genCase() {
    using namespace vf;
    return rc::gen::exec([]() {
        Case c;
        c.tissue = *tg::genTissue(5, 1, *irange(0, 2) == 0, false);
        // radii already vary in [0.6,1.2]: small cells fall below the minimum volume, large ones above the division volume
        const double scale = *rc::gen::element(1.0, 1.0, 1e-5);
        for (auto& cd : c.tissue.cells)
            for (double& v : cd.mesh.xyz) v *= scale;
        c.tissue.edge *= scale;
        c.triangulate = *irange(0, 3) == 0;
        c.polygonal = 0;
        c.threads = *rc::gen::element(1, 2, 4, 8, 16);
        c.iterations = *irange(6, 40);
        c.lmin_f = *rc::gen::element(0.5, 0.35, 0.25);
        c.cut_f = *rc::gen::element(0.1, 0.2, 0.4);
        c.S_f = *rc::gen::element(1.0, 3.0, 7.5);
        c.seed = (uint64_t)*irange(1, 1 << 30);
        c.dynamics = *irange(0, 1);
        return c;
    });
}

static std::string exe_path() {
    char buf[4096];
    ssize_t n = readlink("/proc/self/exe", buf, sizeof buf - 1);
    buf[n > 0 ? n : 0] = 0;
    return buf;
}

struct ChildResult {
    int exit_code = 0, signal = 0;
    std::string out, err_tail;
};
static ChildResult run_child(const std::vector<std::string>& argv, const std::vector<std::pair<std::string, std::string>>& env, const std::string& log_prefix) {
    ChildResult r;
    const std::string outf = log_prefix + ".out", errf = log_prefix + ".err";
    pid_t pid = fork();
    if (pid == 0) {
        for (auto& kv : env) setenv(kv.first.c_str(), kv.second.c_str(), 1);
        if (!freopen(outf.c_str(), "w", stdout)) _exit(120);
        if (!freopen(errf.c_str(), "w", stderr)) _exit(120);
        std::vector<char*> a;
        for (auto& s : argv) a.push_back(const_cast<char*>(s.c_str()));
        a.push_back(nullptr);
        execv(a[0], a.data());
        _exit(121);
    }
    int st = 0;
    waitpid(pid, &st, 0);
    if (WIFEXITED(st)) r.exit_code = WEXITSTATUS(st);
    if (WIFSIGNALED(st)) r.signal = WTERMSIG(st);
    {
        std::ifstream f(outf);
        std::stringstream ss;
        ss << f.rdbuf();
        r.out = ss.str();
    }
    {
        std::ifstream f(errf);
        std::string line;
        std::vector<std::string> keep;
        while (std::getline(f, line))
            if (line.find("ERROR") != std::string::npos || line.find("runtime error") != std::string::npos || line.find("SUMMARY") != std::string::npos ||
                line.find("Assertion") != std::string::npos || line.find("terminate") != std::string::npos || line.find("== ") != std::string::npos ||
                (line.find("    #") != std::string::npos && line.find("/repo/") != std::string::npos && keep.size() < 12))
                keep.push_back(line);
        for (size_t i = 0; i < keep.size() && i < 10; i++) r.err_tail += keep[i].substr(0, 220) + " | ";
    }
    return r;
}

static std::string write_scenario(const Case& k, const std::string& dir) {
    std::filesystem::create_directories(dir);
    // input mesh: every cell as a (triangulated) polyhedron with its class as type id
    std::vector<pg::VtkCell> cells;
    double vref = 0;
    for (auto& cd : k.tissue.cells) {
        pg::VtkCell vc;
        vc.poly = pg::from_trimesh(cd.mesh);
        vc.type_id = (short)cd.cls;
        cells.push_back(vc);
        vref = std::max(vref, (double)fabsl(vg::signed_volume(cd.mesh)));
    }
    pg::write_vtk(dir + "/tissue.vtk", cells);
    const double e = k.tissue.edge, L = e / 0.55;  // L ~ cell radius
    const double dt = 1e-3;
    auto num = [](double v) {
        char b[64];
        snprintf(b, sizeof b, "%.17g", v);
        return std::string(b);
    };
    xg::ParamFile pf = xg::defaults(dir + "/tissue.vtk", dir + "/out");
    *xg::find(pf.numerical, "time_step") = num(dt);
    *xg::find(pf.numerical, "sampling_period") = num(dt * k.S_f);
    *xg::find(pf.numerical, "simulation_duration") = num(dt * (k.iterations - 0.5));
    *xg::find(pf.numerical, "min_edge_length") = num(k.lmin_f * e);
    *xg::find(pf.numerical, "contact_cutoff_adhesion") = num(k.cut_f * e);
    *xg::find(pf.numerical, "contact_cutoff_repulsion") = num(k.cut_f * e);
    *xg::find(pf.numerical, "damping_coefficient") = num(5.0 * L);
    *xg::find(pf.numerical, "perform_initial_triangulation") = k.triangulate ? "1" : "0";
    // five cell types in the order of their ids; volumes in units of the largest cell: small cells (< 0.45) are removed,
    // large epithelial cells (> 0.8) divide in the first iteration
    static const char* NAMES[] = {"epithelial", "ecm", "lumen", "nucleus", "static"};
    xg::CellTypeX base = pf.cell_types[0];
    pf.cell_types.clear();
    for (int t = 0; t < 5; t++) {
        xg::CellTypeX c = base;
        *xg::find(c.tags, "cell_type_name") = NAMES[t];
        *xg::find(c.tags, "global_cell_id") = std::to_string(t);
        // similarity scaling: with lengths x L and the same time step the trajectories scale with L when
        // density ~ 1/L^2, damping ~ L, tension ~ L, k_area ~ L^3, k_bend ~ L^3, k_angle ~ L^3, k_rep ~ 1/L, K unchanged
        *xg::find(c.tags, "cell_mass_density") = num(1.0 / (L * L));
        *xg::find(c.tags, "cell_bulk_modulus") = num(k.dynamics ? 5.0 : 1.0);
        *xg::find(c.tags, "avg_division_volume") = t == 0 ? num(0.8 * vref) : "INF";
        *xg::find(c.tags, "min_vol") = num(0.45 * vref * (t == 1 ? 0.0 : 1.0));
        *xg::find(c.tags, "avg_growth_rate") = num(t == 0 ? 20 * vref : 0);
        *xg::find(c.tags, "std_growth_rate") = num(t == 0 ? 2 * vref : 0);
        *xg::find(c.tags, "area_elasticity_modulus") = num(0.1 * L * L * L);
        *xg::find(c.tags, "angle_regularization_factor") = num(t == 2 ? 0.01 * L * L * L : 0);
        *xg::find(c.tags, "surface_coupling_max_curvature") = num(1e9 / L);
        for (size_t f = 0; f < c.faces.size(); f++) {
            *xg::find(c.faces[f].tags, "surface_tension") = num(1.0 * L);
            *xg::find(c.faces[f].tags, "repulsion_strength") = num((k.dynamics ? 200.0 : 10.0) / L);
            *xg::find(c.faces[f].tags, "adherence_strength") = num(1.0 / L);
            *xg::find(c.faces[f].tags, "bending_modulus") = num(f == 1 ? 1e-3 * L * L * L : 0);
        }
        pf.cell_types.push_back(c);
    }
    std::ofstream o(dir + "/params.xml");
    o << xg::render(pf, (unsigned)k.seed);
    return dir + "/params.xml";
}

static std::string run(const Case& k, vf::Ctx& ctx) {
    const std::string dir = std::string(getenv("VERIF_TMP") ? getenv("VERIF_TMP") : "/tmp") + "/c10_" + std::to_string(getpid());
    std::error_code ec;
    std::filesystem::remove_all(dir, ec);
    struct Rm {
        std::string d;
        ~Rm() {
            std::error_code e2;
            if (!getenv("VERIF_KEEP")) std::filesystem::remove_all(d, e2);
        }
    } rm{dir};
    const std::string xml = write_scenario(k, dir);
    const std::string exe = exe_path();
    const bool valgrind = getenv("VERIF_VALGRIND") != nullptr;
    auto child = [&](int threads, const char* fill, const std::string& tag) {
        std::vector<std::string> argv;
        if (valgrind) argv = {"/usr/bin/valgrind", "-q", "--error-exitcode=79", "--errors-for-leak-kinds=none"};
        argv.push_back(exe);
        argv.insert(argv.end(), {"--child", xml, std::to_string(threads), std::to_string(k.seed)});
        std::vector<std::pair<std::string, std::string>> env = {{"OMP_WAIT_POLICY", "passive"}, {"OMP_NUM_THREADS", std::to_string(threads)}};
        std::string asan = "detect_leaks=0:exitcode=77:abort_on_error=0:allocator_may_return_null=1";
        if (fill) asan += std::string(":max_malloc_fill_size=1073741824:malloc_fill_byte=") + fill;
        env.push_back({"ASAN_OPTIONS", asan});
        env.push_back({"UBSAN_OPTIONS", "halt_on_error=1:exitcode=77:print_stacktrace=1"});
        if (fill) env.push_back({"MALLOC_PERTURB_", fill});
        return run_child(argv, env, dir + "/child_" + tag);
    };
    auto digest_of = [](const ChildResult& r) {
        size_t p = r.out.find("DIGEST ");
        return p == std::string::npos ? std::string() : r.out.substr(p + 7, 16);
    };
    auto verdict = [&](const ChildResult& r, const std::string& what) -> std::string {
        if (r.signal || r.exit_code != 0) {
            std::ostringstream os;
            os << what << ": child " << (r.signal ? "killed by signal " + std::to_string(r.signal) : "exited with code " + std::to_string(r.exit_code)) << " : " << r.err_tail;
            return os.str();
        }
        if (digest_of(r).empty()) return what + ": child produced no digest";
        return "";
    };
    // oracle 1: generated thread count
    ChildResult r0 = child(k.threads, nullptr, "mt");
    std::string m = verdict(r0, "pipeline with " + std::to_string(k.threads) + " thread(s)");
    if (!m.empty()) return m;
    // oracle 2: single-threaded, four heap fill bytes
    std::string ref;
    const char* fills[] = {"0", "85", "190", "255"};
    if (!valgrind)
        for (const char* f : fills) {
            ChildResult r = child(1, f, std::string("fill") + f);
            m = verdict(r, std::string("single-threaded pipeline with heap fill byte ") + f);
            if (!m.empty()) return m;
            std::string d = digest_of(r);
            if (ref.empty()) ref = d;
            else if (d != ref) return std::string("outputs depend on the contents of uninitialised heap memory: digest ") + d + " with fill byte " + f + ", " + ref + " with fill byte 0";
        }
    // classification from the child's summary
    int status = 0;
    size_t n0 = 0, n1 = 0;
    unsigned maxid = 0;
    {
        size_t p = r0.out.find("SUMMARY ");
        if (p != std::string::npos) sscanf(r0.out.c_str() + p, "SUMMARY status=%d cells0=%zu cells1=%zu maxid=%u", &status, &n0, &n1, &maxid);
    }
    const bool divided = n0 > 0 && maxid >= n0, removed = divided ? n1 < n0 + (maxid + 1 - n0) / 2 : n1 < n0;
    ctx.count(status ? "run_reported_an_exception" : "run_completed");
    if (divided) ctx.count("with_division");
    if (removed) ctx.count("with_removal");
    if (k.triangulate) ctx.count("with_initial_triangulation");
    if (k.threads > 1) ctx.count("multi_threaded");
    if (status == 0 && (divided || removed)) {
        ctx.nontriv();
        std::ostringstream s2;
        s2 << k.tissue.note << " cells " << n0 << "->" << n1 << " maxid " << maxid << " iterations " << k.iterations << " threads " << k.threads << " triangulate " << k.triangulate
           << " digest " << digest_of(r0);
        ctx.sample(s2.str());
    }
    return "";
}

int main(int argc, char** argv) {
    if (argc >= 5 && std::string(argv[1]) == "--child") return child_main(argv[2], atoi(argv[3]), strtoull(argv[4], nullptr, 10));
    if (argc >= 3 && std::string(argv[1]) == "--startup-batch") return startup_batch(argv[2]);
    std::vector<vf::Sub> subs;
    subs.push_back(vf::make_sub<Case>("scenario", genCase, run));
    return vf::engine_main(argc, argv, "C10_pipeline", subs);
}
