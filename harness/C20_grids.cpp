// C20 — spatial grids index every in-range point and never miss a neighbour.
// Reference model: voxel index recomputed in long double from the grid's own origin, brute-force neighbourhoods,
// multiset comparison of the full content.  uspg_3d keeps the last writer per voxel (class comment).
#include "common/engine.hpp"
#include "common/geom.hpp"

#include "uspg_3d.hpp"
#include "uspg_4d.hpp"

using vg::ld;

struct Case {
    double lo[3], hi[3], voxel;
    std::vector<double> pts;  // xyz triples, all inside [lo,hi]
    std::vector<double> qry;  // query points, inside [lo,hi]
    std::vector<double> moves;  // per further round 6 numbers (in voxels): displacement of the lower and of the upper corner; the SAME grid
                                // object is re-dimensioned (update_dimensions) and re-populated, as the contact models do every iteration
    int cls = 0;
    void write(vf::Writer& w) const {
        for (double v : lo) w.d(v);
        for (double v : hi) w.d(v);
        w.d(voxel);
        w.i(cls);
        w.nl();
        w.vd(pts);
        w.vd(qry);
        w.vd(moves);
    }
    static Case read(vf::Reader& r) {
        Case c;
        for (double& v : c.lo) v = r.d();
        for (double& v : c.hi) v = r.d();
        c.voxel = r.d();
        c.cls = (int)r.i();
        c.pts = r.vd();
        c.qry = r.vd();
        if (r.more()) c.moves = r.vd();
        return c;
    }
};

static rc::Gen<Case> genCase() {
    using namespace vf;
    return rc::gen::exec([]() {
        Case c;
        // voxel size / coordinate scale from micrometres-in-metres to large
        c.voxel = *rc::gen::element(1.0, 1.0, 0.5, 0.25, 3.0, 1e-6, 2.5e-6, 1e-7, 0.1, 0.3, 7.3, 1e3);
        const bool exact_multiple = *irange(0, 1) == 1;
        c.cls = exact_multiple ? 1 : 0;
        int budget = 30000;  // voxels
        for (int k = 0; k < 3; k++) {
            int maxn = std::max(1, std::min(40, budget));
            int n = *rc::gen::oneOf(irange(1, std::min(4, maxn)), irange(1, maxn));
            budget = std::max(1, budget / n);
            double ext = exact_multiple ? n * c.voxel : (n - 1 + *uniform(0.3, 0.999)) * c.voxel;
            // position classes: at the origin, straddling it, integer offsets, far away
            int pc = *irange(0, 5);
            double lo;
            switch (pc) {
                case 0: lo = 0; break;
                case 1: lo = -ext * (*uniform(0.1, 0.9)); break;
                case 2: lo = c.voxel * (*irange(-50, 50)); break;
                case 3: lo = c.voxel * (*uniform(-100, 100)); break;
                case 4: lo = c.voxel * (*uniform(-1e4, 1e4)); break;
                default: lo = -ext; break;
            }
            c.lo[k] = lo;
            c.hi[k] = lo + ext;
            if (!(c.hi[k] > c.lo[k])) c.hi[k] = std::nextafter(c.lo[k], 1e300);
        }
        auto coord = [&](int k) -> double {
            switch (*irange(0, 7)) {
                case 0: return c.lo[k];
                case 1: return c.hi[k];
                case 2: return std::nextafter(c.hi[k], c.lo[k]);
                case 3: return std::nextafter(c.lo[k], c.hi[k]);
                case 4: {  // on / next to an interior voxel boundary
                    double x = c.lo[k] + c.voxel * (*irange(0, 40));
                    return std::min(c.hi[k], std::max(c.lo[k], x));
                }
                default: return std::min(c.hi[k], std::max(c.lo[k], c.lo[k] + (c.hi[k] - c.lo[k]) * (*unit())));
            }
        };
        // the 8 corners first (sometimes), then generated points
        if (*irange(0, 1))
            for (int i = 0; i < 8; i++)
                for (int k = 0; k < 3; k++) c.pts.push_back((i >> k) & 1 ? c.hi[k] : c.lo[k]);
        int np = *irange(0, 40);
        for (int i = 0; i < np; i++)
            for (int k = 0; k < 3; k++) c.pts.push_back(coord(k));
        // clustered points: several in the same voxel
        if (np > 0 && *irange(0, 1)) {
            double base[3] = {coord(0), coord(1), coord(2)};
            for (int i = 0; i < 5; i++)
                for (int k = 0; k < 3; k++) c.pts.push_back(std::min(c.hi[k], std::max(c.lo[k], base[k] + c.voxel * 0.2 * (*uniform(-1, 1)))));
        }
        int nq = *irange(1, 12);
        for (int i = 0; i < nq; i++)
            for (int k = 0; k < 3; k++) c.qry.push_back(coord(k));
        const int rounds = *rc::gen::element(0, 0, 1, 2, 3);
        for (int r = 0; r < rounds; r++) {
            // the box slides, grows or shrinks by whole and fractional voxels, independently per axis and per corner
            const int mode = *irange(0, 3);
            for (int q = 0; q < 6; q++) {
                double d = *rc::gen::element(0.0, 0.0, 1.0, -1.0, 0.37, -0.37, 3.0, -3.0, 2.5, -0.5);
                if (mode == 0) d = q % 3 == 2 ? d : 0.0;               // along z only
                if (mode == 1 && q >= 3) d = c.moves[c.moves.size() - 3];  // rigid slide: both corners move alike
                c.moves.push_back(d);
            }
        }
        return c;
    });
}

template <class Grid, bool MULTI>
static std::string run_grid(const Case& c0, vf::Ctx& ctx) {
    const size_t np = c0.pts.size() / 3, nq = c0.qry.size() / 3;
    Grid g(c0.lo[0], c0.lo[1], c0.lo[2], c0.hi[0], c0.hi[1], c0.hi[2], c0.voxel, np);
    const size_t rounds = c0.moves.size() / 6;
    Case c = c0;
    for (size_t round = 0; round <= rounds; round++) {
    if (round > 0) {
        // new box; the points keep their relative position in the box (a point on a face stays exactly on that face)
        Case n = c;
        for (int k = 0; k < 3; k++) {
            n.lo[k] = c.lo[k] + c0.moves[6 * (round - 1) + k] * c.voxel;
            n.hi[k] = c.hi[k] + c0.moves[6 * (round - 1) + 3 + k] * c.voxel;
            if (!(n.hi[k] - n.lo[k] >= 0.3 * c.voxel)) n.hi[k] = n.lo[k] + 0.3 * c.voxel;
            if (n.hi[k] - n.lo[k] > 60 * c.voxel) n.hi[k] = n.lo[k] + 60 * c.voxel;
        }
        auto remap = [&](std::vector<double>& v) {
            for (size_t i = 0; i < v.size(); i++) {
                const int k = (int)(i % 3);
                const double x = v[i];
                if (x == c.lo[k]) v[i] = n.lo[k];
                else if (x == c.hi[k]) v[i] = n.hi[k];
                else {
                    double t = (x - c.lo[k]) / (c.hi[k] - c.lo[k]);
                    double y = n.lo[k] + t * (n.hi[k] - n.lo[k]);
                    v[i] = std::min(n.hi[k], std::max(n.lo[k], y));
                }
            }
        };
        remap(n.pts), remap(n.qry);
        c = n;
        g.update_dimensions(np, c.lo[0], c.lo[1], c.lo[2], c.hi[0], c.hi[1], c.hi[2]);
        size_t left = 0;
        for (int o : g.get_grid_content()) (void)o, left++;
        if (left != 0) return "update_dimensions left objects in the grid";
        ctx.count("round_on_redimensioned_grid");
    }
    const auto nb = g.get_nb_voxels();
    const auto mn = g.get_min_corner();
    std::ostringstream os;
    os << std::setprecision(17);
    if (round > 0) os << "round " << round << " on the re-dimensioned grid (box [" << c.lo[0] << "," << c.hi[0] << "]x[" << c.lo[1] << "," << c.hi[1] << "]x[" << c.lo[2] << "," << c.hi[2] << "]): ";
    for (int k = 0; k < 3; k++)
        if (nb[k] == 0 || nb[k] > 100000) {
            os << "grid has " << nb[k] << " voxels along axis " << k;
            return os.str();
        }
    bool boundary_point = false;
    auto index_of = [&](const double* p, std::array<unsigned, 3>& idx, const char* what) -> std::string {
        idx = g.get_3d_voxel_index(p[0], p[1], p[2]);
        for (int k = 0; k < 3; k++) {
            if (idx[k] >= nb[k]) {
                std::ostringstream o2;
                o2 << std::setprecision(17) << what << " (" << p[0] << "," << p[1] << "," << p[2] << ") inside the declared box [" << c.lo[k] << ","
                   << c.hi[k] << "] on axis " << k << " maps to voxel " << idx[k] << " but the grid has only " << nb[k]
                   << " voxels on that axis (voxel size " << c.voxel << ")";
                return o2.str();
            }
            // reference index from the grid's own origin, in long double; only compared away from voxel boundaries
            ld r = ((ld)p[k] - (ld)mn[k]) / (ld)c.voxel;
            ld fr = r - floorl(r);
            if (fr > 1e-9 && fr < 1 - 1e-9 && (unsigned)floorl(r) != idx[k]) {
                std::ostringstream o2;
                o2 << std::setprecision(17) << what << " coordinate " << p[k] << " on axis " << k << " maps to voxel " << idx[k]
                   << " but lies in voxel " << (unsigned)floorl(r);
                return o2.str();
            }
            if (p[k] == c.hi[k]) boundary_point = true;
        }
        return "";
    };
    // place objects (object = point id)
    std::map<std::array<unsigned, 3>, std::vector<int>> model;  // voxel -> objects in insertion order
    for (size_t i = 0; i < np; i++) {
        std::array<unsigned, 3> idx;
        std::string m = index_of(&c.pts[3 * i], idx, "stored point");
        if (!m.empty()) return m;
        g.place_object((int)i, c.pts[3 * i], c.pts[3 * i + 1], c.pts[3 * i + 2]);
        model[idx].push_back((int)i);
        // retrievable from the voxel it was placed in
        bool found = false;
        if constexpr (MULTI) {
            for (int o : g.get_voxel_content(idx[0], idx[1], idx[2])) found |= o == (int)i;
        } else {
            auto v = g.get_voxel_content(idx[0], idx[1], idx[2]);
            found = v.has_value() && v.value() == (int)i;
        }
        if (!found) {
            os << "object " << i << " is not in the voxel (" << idx[0] << "," << idx[1] << "," << idx[2] << ") it was placed in";
            return os.str();
        }
    }
    // what is stored now
    std::multiset<int> stored;
    for (auto& kv : model) {
        if (MULTI) stored.insert(kv.second.begin(), kv.second.end());
        else stored.insert(kv.second.back());
    }
    {
        std::multiset<int> got;
        for (int o : g.get_grid_content()) got.insert(o);
        if (got != stored) {
            os << "get_grid_content returns " << got.size() << " objects, " << stored.size() << " are stored (or the multisets differ)";
            return os.str();
        }
    }
    // neighbourhood queries
    for (size_t qi = 0; qi < nq; qi++) {
        const double* q = &c.qry[3 * qi];
        std::array<unsigned, 3> idx;
        std::string m = index_of(q, idx, "query point");
        if (!m.empty()) return m;
        std::multiset<int> got;
        for (int o : g.get_neighborhood(q[0], q[1], q[2])) got.insert(o);
        for (int o : got)
            if (!stored.count(o)) {
                os << "neighbourhood returns object " << o << " which is not stored";
                return os.str();
            }
        for (int o : stored) {
            ld d2 = 0;
            for (int k = 0; k < 3; k++) d2 += ((ld)c.pts[3 * o + k] - q[k]) * ((ld)c.pts[3 * o + k] - q[k]);
            if (sqrtl(d2) <= (ld)c.voxel * (1 - 1e-9L) && !got.count(o)) {
                os << "neighbourhood of (" << q[0] << "," << q[1] << "," << q[2] << ") misses object " << o << " at distance "
                   << (double)sqrtl(d2) << " <= voxel size " << c.voxel;
                return os.str();
            }
        }
        if (MULTI)
            for (int o : stored)
                if (got.count(o) > 1) {
                    os << "neighbourhood returns object " << o << " more than once";
                    return os.str();
                }
    }
    if (round < rounds) continue;
    // update_dimensions empties the grid
    g.update_dimensions(np, c.lo[0], c.lo[1], c.lo[2], c.hi[0], c.hi[1], c.hi[2]);
    {
        size_t n = 0;
        for (int o : g.get_grid_content()) (void)o, n++;
        if (n != 0) return "update_dimensions left objects in the grid";
    }
    ctx.count(c.cls ? "extent_exact_multiple" : "extent_non_multiple");
    if (boundary_point) ctx.count("point_on_max_face");
    if (c.voxel >= 0.1) ctx.count("unit_scale");
    else ctx.count("micro_scale");
    if (c.cls && boundary_point) {
        ctx.nontriv();
        std::ostringstream s2;
        s2 << "box [" << c.lo[0] << "," << c.hi[0] << "]x[" << c.lo[1] << "," << c.hi[1] << "]x[" << c.lo[2] << "," << c.hi[2] << "] voxel "
           << c.voxel << " -> " << nb[0] << "x" << nb[1] << "x" << nb[2] << " voxels, " << np << " points, " << nq << " queries";
        ctx.sample(s2.str());
    }
    }  // rounds
    return "";
}

static std::string run3(const Case& c, vf::Ctx& ctx) { return run_grid<uspg_3d<int>, false>(c, ctx); }
static std::string run4(const Case& c, vf::Ctx& ctx) { return run_grid<uspg_4d<int>, true>(c, ctx); }

int main(int argc, char** argv) {
    std::vector<vf::Sub> subs;
    subs.push_back(vf::make_sub<Case>("uspg_4d", genCase, run4));
    subs.push_back(vf::make_sub<Case>("uspg_3d", genCase, run3));
    return vf::engine_main(argc, argv, "C20_grids", subs);
}
