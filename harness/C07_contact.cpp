// C07 — contact forces are reciprocal, short-ranged and push overlapping cells apart.
//  sub "tissue": whole generated tissues: no net force, nothing beyond the cut-offs, couplings only between
//                different cells within the adhesion cut-off, a lone cell gets nothing.
//  sub "pair":   one probe node against one large face, for every ordered pair of cell classes and both sides.
#include <omp.h>

#include "common/celltools.hpp"
#include "common/engine.hpp"
#include "common/tissuegen.hpp"

#include "contact_face_face_via_coupling.hpp"
#include "contact_node_face_via_spring.hpp"
#include "contact_node_node_via_coupling.hpp"

using namespace vg;

#if CONTACT_MODEL_INDEX == 0
typedef contact_node_face_via_spring model_t;
#elif CONTACT_MODEL_INDEX == 1
typedef contact_node_node_via_coupling model_t;
#else
typedef contact_face_face_via_coupling model_t;
#endif

// ------------------------------------------------------------------------------------------------ tissue
struct TCase {
    tg::Tissue tissue;
    double lmin_f = 0.5, cut_rep_f = 0.3, cut_adh_f = 0.3;
    int normals_state = 1, lone = 0;
    double aff[3] = {1, 1, 0};  // affine distortion of the whole tissue (x' = sx x + shear y, y' = sy y): obtuse and needle-shaped triangles
    unsigned rough = 0;      // != 0: every cell first undergoes real edge collapses / splits that leave unused node and face slots
    int threads = 1;         // the whole-tissue clauses hold whatever the order in which the threads accumulate the contact forces
    unsigned keep_mask = 0;  // != 0: after the first run the cells whose bit is clear are removed (the way the solver removes cells)
                             // and the SAME model instance runs again on the remaining population
    void write(vf::Writer& w) const {
        tissue.write(w);
        w.d(lmin_f), w.d(cut_rep_f), w.d(cut_adh_f), w.i(normals_state), w.i(lone);
        w.u(keep_mask), w.i(threads);
        w.d(aff[0]), w.d(aff[1]), w.d(aff[2]);
        w.u(rough);
        w.nl();
    }
    static TCase read(vf::Reader& r) {
        TCase c;
        c.tissue = tg::Tissue::read(r);
        c.lmin_f = r.d(), c.cut_rep_f = r.d(), c.cut_adh_f = r.d(), c.normals_state = (int)r.i(), c.lone = (int)r.i();
        if (r.more()) c.keep_mask = (unsigned)r.u();
        if (r.more()) c.threads = (int)r.i();
        if (r.more()) c.aff[0] = r.d(), c.aff[1] = r.d(), c.aff[2] = r.d();
        if (r.more()) c.rough = (unsigned)r.u();
        return c;
    }
};
static rc::Gen<TCase> genT() {
    using namespace vf;
    return rc::gen::exec([]() {
        TCase c;
        c.tissue = *tg::genTissue(5, 1, 0, true);
        c.lmin_f = *loguniform(0.15, 1.5);
        c.cut_rep_f = *loguniform(0.05, 1.5);
        c.cut_adh_f = *loguniform(0.05, 1.5);
        c.normals_state = *irange(0, 2) != 0;
        c.lone = *irange(0, 9) == 0;
        // half of the cases continue with a second run of the same model on a shrunk population (1 cell left, or a random subset)
        c.threads = *rc::gen::element(1, 1, 1, 2, 3, 8);
        if (*irange(0, 1)) c.rough = (unsigned)*irange(1, 1 << 20);
        if (*irange(0, 2) == 0) c.aff[0] = *uniform(1.0, 3.0), c.aff[1] = *uniform(0.35, 1.0), c.aff[2] = *uniform(-1.2, 1.2);
        if (*irange(0, 1)) c.keep_mask = *irange(0, 2) == 0 ? (1u << *irange(0, 4)) : (unsigned)*irange(1, 127);
        return c;
    });
}

static std::string runT(const TCase& k, vf::Ctx& ctx) {
    omp_set_num_threads(std::max(1, k.threads));
    ct::CellScope scope;
    tg::Tissue tis = k.tissue;
    if (k.lone) tis.cells.resize(1);
    for (auto& cd : tis.cells)
        for (size_t i = 0; i < cd.mesh.nn(); i++) {
            const double x = cd.mesh.xyz[3 * i], y = cd.mesh.xyz[3 * i + 1];
            cd.mesh.xyz[3 * i] = k.aff[0] * x + k.aff[2] * y;
            cd.mesh.xyz[3 * i + 1] = k.aff[1] * y;
        }
    tg::Built b;
    try {
        b = tg::build(tis, 10., 1., &scope);
    } catch (const std::exception& e) {
        return std::string("tissue generator produced a cell the code rejects: ") + e.what();
    }
    if (k.rough) {
        int done = 0;
        for (size_t i = 0; i < b.cells.size(); i++) done += ct::leave_free_slots(b.cells[i], 3 + (int)((k.rough >> (i % 8)) % 6), k.rough + 7919 * i);
        if (done) ctx.count("tissue_of_cells_with_unused_slots");
    }
    global_simulation_parameters sp;
    sp.min_edge_len_ = k.lmin_f * tis.edge;
    sp.contact_cutoff_repulsion_ = k.cut_rep_f * tis.edge;
    sp.contact_cutoff_adhesion_ = k.cut_adh_f * tis.edge;
    const ld cutoff = std::max(sp.contact_cutoff_repulsion_, sp.contact_cutoff_adhesion_);
    for (auto& c : b.cells) {
        c->update_all_face_normals_and_areas();
#if CONTACT_MODEL_INDEX != 0
        if (k.normals_state) c->compute_node_curvature_and_normals();
#endif
        for (auto& n : cell_tester::nodes(*c)) cell_tester::force(n).reset();
    }
    model_t model(sp);
    long n_forced = 0, n_coupled = 0;
    ld sabs = 0;
    // one run of the model on `cells` followed by the whole-tissue clauses; phase is only used in messages
    auto run_and_judge = [&](std::vector<cell_ptr>& cells, const char* phase) -> std::string {
        struct B {
            std::vector<cell_ptr>& cells;
        } b{cells};
        std::vector<TriMesh> before;
        for (auto& c : b.cells) before.push_back(ct::snapshot(*c));
        model.run(b.cells);
        n_forced = 0, n_coupled = 0, sabs = 0;
        std::ostringstream os;
        os << std::setprecision(12) << phase;
        // (a) no net force on the tissue
        V3 sum;
        for (auto& c : b.cells)
            for (auto& n : cell_tester::nodes(*c)) {
                if (!n.is_used()) continue;
                V3 f = ct::to_v3(n.force());
                if (!std::isfinite((double)f.n2())) return "non-finite contact force";
                sum = sum + f;
                sabs += f.norm();
                if (f.n2() > 0) n_forced++;
    #if CONTACT_MODEL_INDEX != 0
                if (n.is_coupled()) n_coupled++;
    #endif
            }
        if (sum.norm() > 1e-10 * sabs + 1e-300) {
            os << "contact adds a net force to the tissue: |sum F| = " << (double)sum.norm() << ", sum |F_i| = " << (double)sabs;
            return os.str();
        }
        if (b.cells.size() == 1 && (n_forced || n_coupled)) return os.str() + "a cell alone received contact forces or couplings";
        // (b) range: a node with a contact force must be within the cut-off of another cell's surface (as node) or belong to a
        // face that has a foreign node within the cut-off (as face)
        for (size_t ci = 0; ci < b.cells.size(); ci++) {
            auto& nl = cell_tester::nodes(*b.cells[ci]);
            for (size_t ni = 0; ni < nl.size(); ni++) {
                if (!nl[ni].is_used()) continue;
                bool forced = nl[ni].force().squared_norm() > 0;
                bool coupled = false;
    #if CONTACT_MODEL_INDEX == 1
                coupled = nl[ni].is_coupled();
                if (coupled) {
                    auto [cj, nj] = nl[ni].get_coupled_node();
                    if (cj == ci || cj >= b.cells.size()) {
                        os << "node " << ni << " of cell " << ci << " is coupled to cell " << cj << " (same cell or not existing)";
                        return os.str();
                    }
                    ld d = (before[ci].p(ni) - before[cj].p(nj)).norm();
                    if (!(d < sp.contact_cutoff_adhesion_ * (1 + 1e-9))) {
                        os << "node " << ni << " of cell " << ci << " coupled to node " << nj << " of cell " << cj << " at distance " << (double)d
                           << " >= adhesion cut-off " << sp.contact_cutoff_adhesion_;
                        return os.str();
                    }
                    if (b.cells[ci]->get_cell_type_id() != 0 || b.cells[cj]->get_cell_type_id() != 0) return "coupling involving a cell that is not epithelial";
                }
    #elif CONTACT_MODEL_INDEX == 2
                for (auto& kv : cell_tester::coupled_map(nl[ni])) {
                    coupled = true;
                    if (kv.first == ci || kv.first >= b.cells.size()) return "node coupled to its own cell or to a cell that does not exist";
                    ld d = (before[ci].p(ni) - before[kv.first].p(kv.second.first)).norm();
                    if (!(d < sp.contact_cutoff_adhesion_ * (1 + 1e-9))) {
                        os << "node " << ni << " of cell " << ci << " coupled at distance " << (double)d << " >= adhesion cut-off " << sp.contact_cutoff_adhesion_;
                        return os.str();
                    }
                }
    #endif
                if (!forced) continue;
                bool explained = false;
                for (size_t cj = 0; cj < b.cells.size() && !explained; cj++) {
                    if (cj == ci) continue;
                    if (vg::dist_to_surface(before[cj], before[ci].p(ni)) < cutoff * (1 + 1e-9)) explained = true;
                    // as member of a face: some foreign node close to one of the faces incident to this node
                    for (size_t t = 0; t < before[ci].nt() && !explained; t++) {
                        unsigned a = before[ci].tri[3 * t], bb = before[ci].tri[3 * t + 1], cc = before[ci].tri[3 * t + 2];
                        if (a != ni && bb != ni && cc != ni) continue;
                        for (size_t nj = 0; nj < before[cj].nn(); nj++) {
                            if (!cell_tester::node_used(cell_tester::nodes(*b.cells[cj])[nj])) continue;
                            auto cl = vg::closest_on_triangle(before[cj].p(nj), before[ci].p(a), before[ci].p(bb), before[ci].p(cc));
                            if (sqrtl(cl.d2) < cutoff * (1 + 1e-9)) {
                                explained = true;
                                break;
                            }
                        }
                    }
                }
                if (!explained) {
                    os << "node " << ni << " of cell " << ci << " received a contact force although no element of another cell is within the cut-off " << (double)cutoff;
                    return os.str();
                }
                (void)coupled;
            }
        }

        return "";
    };
    {
        std::string m = run_and_judge(b.cells, "");
        if (!m.empty()) return m;
    }
    ctx.count(n_forced ? "tissue_with_forces" : "tissue_without_forces");
    if (n_coupled) ctx.count("tissue_with_couplings");
    if (b.cells.size() == 1) ctx.count("lone_cell");
    if (k.threads > 1 && (n_forced || n_coupled)) ctx.count("contacts_computed_by_several_threads");
    if ((k.aff[0] != 1 || k.aff[2] != 0) && (n_forced || n_coupled)) ctx.count("contacts_on_distorted_tissue_with_obtuse_triangles");
    if (n_forced || n_coupled) {
        ctx.nontriv();
        std::ostringstream s2;
        s2 << tis.note << " cells=" << b.cells.size() << " forced_nodes=" << n_forced << " coupled_nodes=" << n_coupled << " sum|F|=" << (double)sabs;
        ctx.sample(s2.str());
    }
    if (k.keep_mask && b.cells.size() >= 2) {
        // the population shrinks the way solver::run_iteration shrinks it (erase + renumbering of the local ids), forces are reset as
        // the time integration does, and the same model instance runs on what is left
        const long coupled_before = n_coupled;
        std::vector<cell_ptr> rest;
        for (size_t i = 0; i < b.cells.size(); i++)
            if (k.keep_mask >> i & 1u) rest.push_back(b.cells[i]);
        if (rest.empty()) rest.push_back(b.cells[k.keep_mask % b.cells.size()]);
        if (rest.size() < b.cells.size()) {
            for (size_t i = 0; i < rest.size(); i++) rest[i]->set_local_id((unsigned)i);
            for (auto& c : rest) {
                c->update_all_face_normals_and_areas();
#if CONTACT_MODEL_INDEX != 0
                if (k.normals_state) c->compute_node_curvature_and_normals();
#endif
                for (auto& n : cell_tester::nodes(*c)) cell_tester::force(n).reset();
            }
            std::string m = run_and_judge(rest, "second run of the same model after the population shrank: ");
            if (!m.empty()) return m;
            ctx.count("second_run_on_shrunk_population");
            if (rest.size() == 1) ctx.count("second_run_on_single_survivor");
            if (coupled_before) ctx.count("second_run_after_couplings_existed");
        }
    }
    return "";
}

// ------------------------------------------------------------------------------------------------ pair
struct PCase {
    int cls_a = 0, cls_b = 0;        // class of the probe's cell / of the large cell
    double depth = 0;                // signed distance of the probe from the face, in cut-off units (>0 outside B)
    double u = 0, v = 0;             // in-plane offset of the foot point (fraction of the edge)
    int body_inside = 0;             // where the rest of cell A sits
    int face_index = 0, normals_state = 0;
    double cut_rep = 0.1, cut_adh = 0.1, krep = 10;
    mg::Placement pl;
    void write(vf::Writer& w) const {
        w.i(cls_a), w.i(cls_b), w.d(depth), w.d(u), w.d(v), w.i(body_inside), w.i(face_index), w.i(normals_state), w.d(cut_rep), w.d(cut_adh), w.d(krep);
        pl.write(w);
        w.nl();
    }
    static PCase read(vf::Reader& r) {
        PCase c;
        c.cls_a = (int)r.i(), c.cls_b = (int)r.i(), c.depth = r.d(), c.u = r.d(), c.v = r.d(), c.body_inside = (int)r.i(), c.face_index = (int)r.i(),
        c.normals_state = (int)r.i(), c.cut_rep = r.d(), c.cut_adh = r.d(), c.krep = r.d();
        c.pl = mg::Placement::read(r);
        return c;
    }
};
static rc::Gen<PCase> genP() {
    using namespace vf;
    return rc::gen::exec([]() {
        PCase c;
        c.cls_a = *irange(0, 4);
        c.cls_b = *irange(0, 4);
        c.depth = *rc::gen::oneOf(uniform(-0.95, 0.95), uniform(-0.3, 0.3));
        if (std::fabs(c.depth) < 1e-3) c.depth = 0.05;
        c.u = *uniform(-0.05, 0.05);
        c.v = *uniform(-0.05, 0.05);
        c.body_inside = *irange(0, 1);
        c.face_index = *irange(0, 3);
        c.normals_state = *irange(0, 1);
        c.cut_rep = *loguniform(0.02, 0.5);
        c.cut_adh = *loguniform(0.02, 0.5);
        c.krep = *loguniform(1e-2, 1e3);
        c.pl = *mg::genPlacement(true);
        return c;
    });
}

static std::string runP(const PCase& k, vf::Ctx& ctx) {
    omp_set_num_threads(1);
    ct::CellScope scope;
    const double cmax = std::max(k.cut_rep, k.cut_adh);
    const double edge = 60 * cmax;  // large cell: every other element is far beyond the cut-offs
    // B: regular tetrahedron of that edge length about the origin
    TriMesh B = mg::tetrahedron();
    const double sB = edge / (2 * std::sqrt(2.0));
    for (double& x : B.xyz) x *= sB;
    const size_t fi = (size_t)k.face_index % B.nt();
    V3 a = B.p(B.tri[3 * fi]), b = B.p(B.tri[3 * fi + 1]), c = B.p(B.tri[3 * fi + 2]);
    V3 n = (b - a).cross(c - a);
    n = n * (1 / n.norm());  // outward (mesh is outward wound)
    V3 foot = (a + b + c) * (1 / 3.0L) + (b - a) * k.u + (c - a) * k.v;
    V3 probe = foot + n * (k.depth * cmax);
    // A: thin tetrahedron with its apex at the probe, its base 6 cut-offs away (inside or outside B)
    V3 dirA = k.body_inside ? n * -1 : n;
    V3 basec = foot + dirA * (6 * cmax);
    V3 t1 = (b - a) * (1 / (b - a).norm()), t2 = n.cross(t1);
    TriMesh A;
    mg::add_node(A, probe.x, probe.y, probe.z);
    for (int i = 0; i < 3; i++) {
        V3 p = basec + t1 * (cmax * cosl(2 * M_PIl * i / 3)) + t2 * (cmax * sinl(2 * M_PIl * i / 3));
        mg::add_node(A, p.x, p.y, p.z);
    }
    mg::add_tri(A, 0, 1, 2);
    mg::add_tri(A, 0, 2, 3);
    mg::add_tri(A, 0, 3, 1);
    mg::add_tri(A, 1, 3, 2);
    tg::Tissue tis;
    tis.cells.resize(2);
    tis.cells[0].cls = k.cls_a;
    tis.cells[0].mesh = mg::place(A, k.pl);
    tis.cells[1].cls = k.cls_b;
    tis.cells[1].mesh = mg::place(B, k.pl);
    const double L = k.pl.scale;  // physical scale
    tg::Built bt;
    try {
        bt = tg::build(tis, k.krep, 1.0, &scope);
    } catch (const std::exception& e) {
        return std::string("cell rejects generated mesh: ") + e.what();
    }
    global_simulation_parameters sp;
    sp.min_edge_len_ = cmax * L;
    sp.contact_cutoff_repulsion_ = k.cut_rep * L;
    sp.contact_cutoff_adhesion_ = k.cut_adh * L;
    for (auto& cc : bt.cells) {
        cc->update_all_face_normals_and_areas();
#if CONTACT_MODEL_INDEX != 0
        if (k.normals_state) cc->compute_node_curvature_and_normals();
#endif
        for (auto& nd : cell_tester::nodes(*cc)) cell_tester::force(nd).reset();
    }
    cell& CA = *bt.cells[0];
    cell& CB = *bt.cells[1];
    TriMesh mA = ct::snapshot(CA), mB = ct::snapshot(CB);
    // the face of B the probe faces, found geometrically with the independent kernel
    V3 p = mA.p(0);
    int fB = -1, in_range = 0;
    vg::Closest best;
    for (size_t t = 0; t < mB.nt(); t++) {
        auto cl = vg::closest_on_triangle(p, mB.p(mB.tri[3 * t]), mB.p(mB.tri[3 * t + 1]), mB.p(mB.tri[3 * t + 2]));
        if (sqrtl(cl.d2) < cmax * L * (1 + 1e-6)) in_range++, fB = (int)t, best = cl;
    }
    if (in_range != 1) return "harness construction failed: probe is not in range of exactly one face";
    const auto& fl = cell_tester::faces(CB);
    const face& F = fl[fB];
    auto ids = cell_tester::face_ids(F);
    V3 v0 = mB.p(ids[0]), v1 = mB.p(ids[1]), v2 = mB.p(ids[2]);
    V3 nB = (v1 - v0).cross(v2 - v0);
    const ld areaB = nB.norm() / 2;
    nB = nB * (1 / nB.norm());
    V3 q = best.q;
    const ld dist = (p - q).norm();
    const bool outside = (p - q).dot(nB) > 0;
    // forbidden side: inside an ordinary cell; outside an enclosing matrix (epithelial node / ECM face) or an
    // enclosing cell (nucleus node / epithelial face)
    const bool enclosing = (k.cls_a == 0 && k.cls_b == 1) || (k.cls_a == 3 && k.cls_b == 0);
    const bool forbidden = enclosing ? outside : !outside;
    model_t model(sp);
    model.run(bt.cells);
    std::ostringstream os;
    os << std::setprecision(12);
    V3 Fp = ct::to_v3(cell_tester::nodes(CA)[0].force());
    V3 F0 = ct::to_v3(cell_tester::nodes(CB)[ids[0]].force()), F1 = ct::to_v3(cell_tester::nodes(CB)[ids[1]].force()),
       F2 = ct::to_v3(cell_tester::nodes(CB)[ids[2]].force());
    // nobody else may feel anything
    for (size_t i = 1; i < mA.nn(); i++)
        if (cell_tester::nodes(CA)[i].force().squared_norm() > 0) return "a node of the probe's cell that is 5 cut-offs away from every face received a force";
    for (size_t i = 0; i < mB.nn(); i++)
        if (i != ids[0] && i != ids[1] && i != ids[2] && cell_tester::nodes(CB)[i].force().squared_norm() > 0)
            return "a node that does not belong to the facing triangle received a force";
#if CONTACT_MODEL_INDEX != 0
    for (auto& cc : bt.cells)
        for (auto& nd : cell_tester::nodes(*cc))
            if (nd.is_used() && nd.is_coupled()) return "coupling created although no two nodes are within the adhesion cut-off";
#endif
    const ld scaleF = (ld)k.krep * 2 * areaB * dist;
    const ld tolF = 1e-9 * scaleF + 1e-300;
    // reciprocity
    V3 react = F0 + F1 + F2;
    if ((react + Fp).norm() > tolF + 1e-9 * Fp.norm()) {
        os << "force on the node (" << (double)Fp.x << "," << (double)Fp.y << "," << (double)Fp.z << ") is not minus the sum of the forces on the triangle ("
           << (double)react.x << "," << (double)react.y << "," << (double)react.z << ")";
        return os.str();
    }
    const bool applied = Fp.norm() > 0;
    if (applied) {
        // the three shares are non-negative multiples of the reaction, weights = barycentric coordinates of the foot point
        V3 R = react;
        ld w[3];
        V3 Fs[3] = {F0, F1, F2};
        ld wsum = 0;
        for (int i = 0; i < 3; i++) {
            w[i] = Fs[i].dot(R) / R.n2();
            if ((Fs[i] - R * w[i]).norm() > 1e-9 * R.norm()) return "a share of the reaction is not parallel to the reaction";
            if (w[i] < -1e-9) return "negative share of the reaction on a triangle node";
            wsum += w[i];
        }
        V3 qq = v0 * w[0] + v1 * w[1] + v2 * w[2];
        if (fabsl(wsum - 1) > 1e-9 || (qq - q).norm() > 1e-7 * (dist + (v1 - v0).norm() * 1e-3)) {
            os << "the reaction is not distributed with the barycentric weights of the closest point: weights (" << (double)w[0] << "," << (double)w[1] << "," << (double)w[2] << ")";
            return os.str();
        }
    }
    const double krep_face = CB.get_face_type(fB).repulsion_strength_;
    if (forbidden) {
        if (applied) {
            if (!(Fp.dot(q - p) > 0)) {
                os << "node on the forbidden side (" << (outside ? "outside" : "inside") << " a class-" << k.cls_b << " cell, node class " << k.cls_a
                   << ") is pushed away from the surface instead of back towards it";
                return os.str();
            }
            if (dist < sp.contact_cutoff_repulsion_ || CONTACT_MODEL_INDEX != 0) {
                ld want = (ld)krep_face * areaB * dist;
                if (fabsl(Fp.norm() - want) > 1e-7 * want) {
                    os << "repulsion magnitude " << (double)Fp.norm() << " differs from k_rep * face area * depth = " << (double)want;
                    return os.str();
                }
            }
        }
        // a force is required where the rules leave no doubt
        bool prefilter_passes = true;
#if CONTACT_MODEL_INDEX != 0
        // models 1 and 2 only present pairs whose node normal opposes the face normal
        if (k.normals_state != 0) prefilter_passes = ct::to_v3(cell_tester::nodes(CA)[0].get_normal()).dot(ct::to_v3(F.get_normal())) < -1e-6;
#endif
        const ld rng = CONTACT_MODEL_INDEX == 0 ? (ld)sp.contact_cutoff_repulsion_ : (ld)std::max(sp.contact_cutoff_repulsion_, sp.contact_cutoff_adhesion_);
        if (!applied && prefilter_passes && dist < rng * (1 - 1e-6) && dist > 0) {
            os << "node at depth " << (double)dist << " on the forbidden side of a class-" << k.cls_b << " cell (node class " << k.cls_a << ", cut-off " << (double)rng
               << ") received no repulsion";
            return os.str();
        }
        if (!applied) ctx.count("forbidden_side_without_force_(normal_prefilter_or_beyond_repulsion_cutoff)");
    } else {
#if CONTACT_MODEL_INDEX != 0
        if (applied) {
            os << "node on the permitted side received a contact force in a coupling model (only repulsion exists there)";
            return os.str();
        }
#else
        if (applied && !(dist < sp.contact_cutoff_adhesion_ * (1 + 1e-9))) return "adhesion force beyond the adhesion cut-off";
        if (applied && !(Fp.dot(q - p) > 0)) return "adhesion pushes the node away from the surface";
#endif
    }
    ctx.count(std::string("pair_") + std::to_string(k.cls_a) + "_" + std::to_string(k.cls_b) + (forbidden ? "_forbidden" : "_permitted"));
    if (applied) {
        ctx.nontriv();
        std::ostringstream s2;
        s2 << "classes " << k.cls_a << "->" << k.cls_b << " " << (outside ? "outside" : "inside") << " depth/cutoff=" << k.depth << " |F|=" << (double)Fp.norm()
           << " scale=" << k.pl.scale;
        ctx.sample(s2.str());
    }
    return "";
}

int main(int argc, char** argv) {
    std::vector<vf::Sub> subs;
    subs.push_back(vf::make_sub<TCase>("tissue", genT, runT));
    subs.push_back(vf::make_sub<PCase>("pair", genP, runP));
    return vf::engine_main(argc, argv, "C07_contact", subs);
}
