// C06 — contact detection finds every node-face pair within the interaction range.
// Oracle A: the same contact rules (the real narrow-phase entry of a second model instance) applied to ALL
// node / foreign-face pairs, in the order in which the voxel lists yield them (descending global face id), must give
// the same forces, couplings, positions and face types as the grid-accelerated run.
// Oracle B: the real model with a voxel so large that the grid has a single cell must agree as well.
#include <omp.h>

#include "common/celltools.hpp"
#include "common/engine.hpp"
#include "common/tissuegen.hpp"
#include "common/solverkit.hpp"
#include "common/xmlgen.hpp"
#include "parameter_reader.hpp"
#include <filesystem>
#include <fstream>

#include "contact_face_face_via_coupling.hpp"
#include "contact_node_face_via_spring.hpp"
#include "contact_node_node_via_coupling.hpp"

using namespace vg;

#if CONTACT_MODEL_INDEX == 0
typedef contact_node_face_via_spring model_t;
#elif CONTACT_MODEL_INDEX == 1
typedef contact_node_node_via_coupling model_t;
#else
typedef contact_face_face_via_coupling model_t;
#endif

struct Case {
    tg::Tissue tissue;
    double lmin_f = 0.5, cut_rep_f = 0.3, cut_adh_f = 0.3;  // in units of the typical edge length
    int normals_state = 1;                                    // 0 = iteration-0 state (normals zero), 1 = computed
    double max_curv = 1e300;
    unsigned rough = 0;         // != 0: every cell first undergoes real edge collapses / splits that leave unused node and face slots
    double far[3] = {0, 0, 0};  // extra translation of the whole tissue in units of the typical edge ("wherever the tissue is placed")
    int via_xml = 0;            // != 0: edge length and the two cut-offs reach the contact model through a parameter file and the real XML reader
    void write(vf::Writer& w) const {
        tissue.write(w);
        w.d(lmin_f), w.d(cut_rep_f), w.d(cut_adh_f), w.i(normals_state), w.d(max_curv);
        w.d(far[0]), w.d(far[1]), w.d(far[2]);
        w.u(rough);
        w.i(via_xml);
        w.nl();
    }
    static Case read(vf::Reader& r) {
        Case c;
        c.tissue = tg::Tissue::read(r);
        c.lmin_f = r.d(), c.cut_rep_f = r.d(), c.cut_adh_f = r.d(), c.normals_state = (int)r.i(), c.max_curv = r.d();
        if (r.more()) c.far[0] = r.d(), c.far[1] = r.d(), c.far[2] = r.d();
        if (r.more()) c.rough = (unsigned)r.u();
        if (r.more()) c.via_xml = (int)r.i();
        return c;
    }
};

static rc::Gen<Case> genCase() {
    using namespace vf;
    return rc::gen::exec([]() {
        Case c;
        c.tissue = *tg::genTissue(6, 2, 0, true);
        c.lmin_f = *loguniform(0.15, 1.5);
        c.cut_rep_f = *loguniform(0.05, 3.0);
        c.cut_adh_f = *loguniform(0.05, 3.0);
        c.normals_state = *irange(0, 2) != 0;
        c.via_xml = *rc::gen::element(0, 0, 1, 2, 3);
        c.max_curv = *rc::gen::element(1e300, 1e300, 2.0, 0.8);
        // contact detection involves no quantity that is ill-conditioned far from the origin (unlike the enclosed volume), so the
        // placements go much further out than elsewhere: up to 1e7 edge lengths, where a double still resolves 1e-9 edge
        const double mag = *rc::gen::element(0., 0., 1e4, 1e5, 1e6, 1e7);
        for (double& v : c.far) v = mag == 0 ? 0. : (*uniform(-1, 1)) * mag;
        if (*irange(0, 1)) c.rough = (unsigned)*irange(1, 1 << 20);
        return c;
    });
}

// all node forces zero, couplings cleared, normals/curvatures prepared like the solver does
static void prepare(std::vector<cell_ptr>& cells, const Case& k) {
    for (auto& c : cells) {
        c->update_all_face_normals_and_areas();
        c->get_cell_type()->surface_coupling_max_curvature_ = k.max_curv / (k.tissue.edge > 0 ? k.tissue.edge : 1);
#if CONTACT_MODEL_INDEX == 1 || CONTACT_MODEL_INDEX == 2
        if (k.normals_state) c->compute_node_curvature_and_normals();
#endif
        for (auto& n : cell_tester::nodes(*c)) cell_tester::force(n).reset();
    }
}

// reference: every node against every face of every other cell through the public narrow-phase entry of `model`
static void all_pairs(model_t& model, std::vector<cell_ptr>& cells) {
    std::vector<std::pair<cell_ptr, face*>> faces;  // in global id order
    for (auto& c : cells)
        for (auto& f : cell_tester::faces(*c))
            if (f.is_used()) faces.push_back({c, &f});
    for (auto& c : cells)
        for (auto& n : cell_tester::nodes(*c)) {
            if (!n.is_used()) continue;
#if CONTACT_MODEL_INDEX == 1
            cell_tester::coupled(n) = std::nullopt;
            cell_tester::coupled_d2(n) = std::numeric_limits<double>::max();
#elif CONTACT_MODEL_INDEX == 2
            cell_tester::coupled_map(n).clear();
#endif
        }
    static const double max_dot_rep = std::cos(90 * M_PI / 180.0);
    (void)max_dot_rep;
    for (auto& c1 : cells) {
#if CONTACT_MODEL_INDEX != 0
        const double maxc = c1->get_cell_type()->surface_coupling_max_curvature_;
#endif
        for (auto& n : cell_tester::nodes(*c1)) {
            if (!n.is_used()) continue;
#if CONTACT_MODEL_INDEX != 0
            if (!(n.get_curvature() < maxc)) continue;
#endif
            for (size_t i = faces.size(); i-- > 0;) {
                cell_ptr c2 = faces[i].first;
                face* f = faces[i].second;
                if (c1->get_id() == c2->get_id()) continue;
#if CONTACT_MODEL_INDEX == 0
                model.apply_contact_forces(c1, n, f);
#else
                if (n.get_normal().dot(f->get_normal()) < max_dot_rep) model.resolve_contact(c1, c2, n, f);
#endif
            }
        }
    }
    // position pass of the coupling models (coupled nodes are moved to their mean position)
#if CONTACT_MODEL_INDEX == 1
    for (size_t c1_id = 0; c1_id < cells.size(); c1_id++)
        for (auto& n1 : cell_tester::nodes(*cells[c1_id])) {
            if (!n1.is_used() || !n1.is_coupled()) continue;
            auto [c2_id, n2_id] = n1.get_coupled_node();
            if (c1_id > c2_id) {
                node& n2 = cell_tester::nodes(*cells[c2_id])[n2_id];
                const vec3 center = (n1.pos() + n2.pos()) * 0.5;
                cell_tester::pos(n1).reset(center);
                cell_tester::pos(n2).reset(center);
            }
        }
#elif CONTACT_MODEL_INDEX == 2
    for (unsigned c1_id = 0; c1_id < cells.size(); c1_id++)
        for (auto& n1 : cell_tester::nodes(*cells[c1_id])) {
            if (!n1.is_used() || !n1.is_coupled()) continue;
            auto& mp = cell_tester::coupled_map(n1);
            bool greatest = true;
            for (auto& kv : mp) greatest &= cells[c1_id]->get_local_id() > kv.first;
            if (!greatest) continue;
            vec3 avg = n1.pos();
            for (auto& kv : mp) avg = avg + cell_tester::nodes(*cells[kv.first])[kv.second.first].pos();
            avg = avg / (n1.get_nb_coupled_nodes() + 1.0);
            cell_tester::pos(n1).reset(avg);
            for (auto& kv : mp) cell_tester::pos(cell_tester::nodes(*cells[kv.first])[kv.second.first]).reset(avg);
        }
#endif
}

static std::string compare(const std::vector<cell_ptr>& a, const std::vector<cell_ptr>& b, const char* what, ld& force_sum) {
    std::ostringstream os;
    os << std::setprecision(17);
    force_sum = 0;
    for (size_t ci = 0; ci < a.size(); ci++) {
        auto &na = cell_tester::nodes(*a[ci]), &nb = cell_tester::nodes(*b[ci]);
        for (size_t ni = 0; ni < na.size(); ni++) {
            if (!na[ni].is_used()) continue;
            V3 fa = ct::to_v3(na[ni].force()), fb = ct::to_v3(nb[ni].force());
            force_sum += fa.norm();
            if ((fa - fb).norm() > 1e-12 * (fa.norm() + fb.norm())) {
                os << what << ": contact force on node " << ni << " of cell " << ci << " is (" << (double)fa.x << "," << (double)fa.y << "," << (double)fa.z
                   << ") with the spatial grid but (" << (double)fb.x << "," << (double)fb.y << "," << (double)fb.z << ") when all node-face pairs are examined";
                return os.str();
            }
            V3 pa = ct::to_v3(na[ni].pos()), pb = ct::to_v3(nb[ni].pos());
            if (pa.x != pb.x || pa.y != pb.y || pa.z != pb.z) {
                os << what << ": node " << ni << " of cell " << ci << " ends at a different position (coupling differs)";
                return os.str();
            }
#if CONTACT_MODEL_INDEX == 1
            if (cell_tester::coupled(na[ni]) != cell_tester::coupled(nb[ni])) {
                os << what << ": node " << ni << " of cell " << ci << " is coupled differently with the grid than with all pairs";
                return os.str();
            }
#elif CONTACT_MODEL_INDEX == 2
            if (cell_tester::coupled_map(na[ni]) != cell_tester::coupled_map(nb[ni])) {
                os << what << ": node " << ni << " of cell " << ci << " is coupled differently with the grid than with all pairs";
                return os.str();
            }
#endif
        }
        auto &fa = cell_tester::faces(*a[ci]), &fb = cell_tester::faces(*b[ci]);
        for (size_t fi = 0; fi < fa.size(); fi++)
            if (fa[fi].is_used() && cell_tester::face_type(fa[fi]) != cell_tester::face_type(fb[fi])) {
                os << what << ": face " << fi << " of cell " << ci << " polarised differently (a contact was not presented)";
                return os.str();
            }
    }
    return "";
}

static std::string run(const Case& k, vf::Ctx& ctx) {
    omp_set_num_threads(1);  // couplings are order dependent by design; threads are C15's subject
    ct::CellScope scope;
    tg::Built b;
    tg::Tissue placed = k.tissue;
    for (auto& cd : placed.cells)
        for (size_t i = 0; i < cd.mesh.xyz.size(); i++) cd.mesh.xyz[i] += k.far[i % 3] * k.tissue.edge;
    try {
        b = tg::build(placed, 10., 1., &scope);
    } catch (const std::exception& e) {
        return std::string("tissue generator produced a cell the code rejects: ") + e.what();
    }
    if (k.rough) {
        int done = 0;
        for (size_t i = 0; i < b.cells.size(); i++) done += ct::leave_free_slots(b.cells[i], 3 + (int)((k.rough >> (i % 8)) % 6), k.rough + 7919 * i);
        if (done) ctx.count("tissue_of_cells_with_unused_slots");
    }
    global_simulation_parameters sp;
    sp.min_edge_len_ = k.lmin_f * k.tissue.edge;
    sp.contact_cutoff_repulsion_ = k.cut_rep_f * k.tissue.edge;
    sp.contact_cutoff_adhesion_ = k.cut_adh_f * k.tissue.edge;
    if (k.via_xml) {
        // end-to-end clause of C18 ("the values govern the run they are named after ... edge length, cut-offs"): the three values are written
        // into a parameter file, come back through parameter_reader, and the structure it returns is what the contact model is built from
        const std::string dir = sk::scratch_dir("c06xml");
        std::filesystem::create_directories(dir);
        struct RmDir {
            std::string d;
            ~RmDir() {
                std::error_code ec;
                std::filesystem::remove_all(d, ec);
            }
        } rmdir{dir};
        xg::ParamFile pf = xg::defaults(dir + "/unused.vtk", dir + "/out");
        auto txt = [](double v) {
            char b[64];
            snprintf(b, sizeof b, "%.17g", v);
            return std::string(b);
        };
        *xg::find(pf.numerical, "min_edge_length") = txt(sp.min_edge_len_);
        *xg::find(pf.numerical, "contact_cutoff_adhesion") = txt(sp.contact_cutoff_adhesion_);
        *xg::find(pf.numerical, "contact_cutoff_repulsion") = txt(sp.contact_cutoff_repulsion_);
        {
            std::ofstream o(dir + "/p.xml");
            o << xg::render(pf, (unsigned)k.via_xml);
        }
        global_simulation_parameters want = sp;
        try {
            parameter_reader rd(dir + "/p.xml");
            sp = rd.read_numerical_parameters();
        } catch (const std::exception& e) {
            return std::string("valid parameter file rejected: ") + e.what();
        }
        if (sp.min_edge_len_ != want.min_edge_len_ || sp.contact_cutoff_adhesion_ != want.contact_cutoff_adhesion_ || sp.contact_cutoff_repulsion_ != want.contact_cutoff_repulsion_)
            return "edge length / cut-offs returned by the parameter reader are not those of the file";
        ctx.count("parameters_through_the_xml_reader");
        if (k.cut_adh_f > k.cut_rep_f * 1.2) ctx.count("xml_adhesion_cutoff_above_repulsion_cutoff");
        if (k.cut_rep_f > k.cut_adh_f * 1.2) ctx.count("xml_repulsion_cutoff_above_adhesion_cutoff");
    }
    std::vector<cell_ptr> A = b.cells;
    prepare(A, k);
    std::vector<cell_ptr> B = tg::clone(A, &scope), C = tg::clone(A, &scope);
    model_t grid_model(sp), ref_model(sp);
    grid_model.run(A);
    all_pairs(ref_model, B);
    ld fs = 0, fs2 = 0;
    std::string m = compare(A, B, "grid vs all pairs", fs);
    if (!m.empty()) return m;
    global_simulation_parameters sp1 = sp;
    sp1.min_edge_len_ = sp.min_edge_len_ * 1e6;
    model_t one_voxel(sp1);
    one_voxel.run(C);
    m = compare(A, C, "grid vs single-voxel grid", fs2);
    if (!m.empty()) return m;
    // classification with the independent kernel: interacting pairs and how they straddle voxels
    const double cutoff = std::max(sp.contact_cutoff_repulsion_, sp.contact_cutoff_adhesion_);
    const double voxel = sp.min_edge_len_ * 3 + 2 * cutoff;
    long within = 0, cross_voxel = 0;
    double lo[3] = {1e300, 1e300, 1e300}, hi[3] = {-1e300, -1e300, -1e300};
    for (auto& c : b.cells)
        for (auto& n : cell_tester::nodes(*c))
            for (int q = 0; q < 3; q++) {
                double v = q == 0 ? n.pos().dx() : q == 1 ? n.pos().dy() : n.pos().dz();
                lo[q] = std::min(lo[q], v), hi[q] = std::max(hi[q], v);
            }
    for (size_t ci = 0; ci < B.size() && within < 50; ci++) {
        TriMesh mi = ct::snapshot(*B[ci]);
        for (size_t cj = 0; cj < B.size(); cj++) {
            if (ci == cj) continue;
            TriMesh mj = ct::snapshot(*B[cj]);
            for (size_t ni = 0; ni < mi.nn() && within < 50; ni += 3)
                for (size_t t = 0; t < mj.nt(); t += 2) {
                    auto cl = vg::closest_on_triangle(mi.p(ni), mj.p(mj.tri[3 * t]), mj.p(mj.tri[3 * t + 1]), mj.p(mj.tri[3 * t + 2]));
                    if (cl.d2 < (ld)cutoff * cutoff) {
                        within++;
                        V3 g = (mj.p(mj.tri[3 * t]) + mj.p(mj.tri[3 * t + 1]) + mj.p(mj.tri[3 * t + 2])) * (1 / 3.0L);
                        bool cross = false;
                        for (int q = 0; q < 3; q++) {
                            ld a = q == 0 ? mi.p(ni).x : q == 1 ? mi.p(ni).y : mi.p(ni).z, bb = q == 0 ? g.x : q == 1 ? g.y : g.z;
                            cross |= floorl((a - lo[q]) / voxel) != floorl((bb - lo[q]) / voxel);
                        }
                        if (cross) cross_voxel++;
                    }
                }
        }
    }
    const double nvox = std::ceil((hi[0] - lo[0]) / voxel + 1) * std::ceil((hi[1] - lo[1]) / voxel + 1) * std::ceil((hi[2] - lo[2]) / voxel + 1);
    if (within) ctx.count("tissue_with_pair_in_range");
    if (cross_voxel) ctx.count("tissue_with_cross_voxel_pair");
    if (fs > 0) ctx.count("tissue_with_contact_force");
    if (nvox >= 27) ctx.count("tissue_spanning_27_voxels");
    ctx.count(k.normals_state ? "normals_computed" : "normals_iteration0");
    {
        const double fm = std::max({std::fabs(k.far[0]), std::fabs(k.far[1]), std::fabs(k.far[2])});
        if (fm > 0 && within) ctx.count("pair_in_range_with_tissue_1e" + std::to_string((int)std::floor(std::log10(fm * k.tissue.edge / cutoff))) + "_cutoffs_from_origin");
    }
    if (within && nvox >= 27 && (fs > 0 || cross_voxel)) {
        ctx.nontriv();
        std::ostringstream s2;
        s2 << k.tissue.note << " cells=" << B.size() << " voxels~" << nvox << " cutoff/edge=" << cutoff / k.tissue.edge << " lmin/edge=" << k.lmin_f
           << " sum|F|=" << (double)fs;
        ctx.sample(s2.str());
    }
    return "";
}

int main(int argc, char** argv) {
    std::vector<vf::Sub> subs;
    subs.push_back(vf::make_sub<Case>("broadphase", genCase, run));
    return vf::engine_main(argc, argv, "C06_broadphase", subs);
}
