// C03 — a time step follows the documented integration law (semi-implicit Euler / overdamped), static cells
// never move, force accumulators are reset, coupled pairs move together and conserve their total momentum.
// Oracle: independent long-double re-implementation of the law, node by node.
#include <omp.h>

#include "common/celltools.hpp"
#include <cstring>

#include "common/engine.hpp"
#include "common/meshgen.hpp"

#include "local_mesh_refiner.hpp"
#include "time_integration.hpp"

using namespace vg;

struct CellSpec {
    int cls = 0;       // 0 epithelial 1 ecm 2 lumen 3 nucleus 4 static
    int family = 0;    // tiny closed shapes
    int param = 3;
    double density = 1, scale = 1, off[3] = {0, 0, 0};
    int merge_first = 0;  // create free slots with a real edge collapse
};
struct Coupling {
    unsigned ca, na, cb, nb;
};
struct Case {
    std::vector<CellSpec> cells;
    std::vector<Coupling> couplings;
    double dt = 1e-3, damping = 1;
    int steps = 1, threads = 1;
    unsigned fseed = 1;
    double fmag = 1, pmag = 1;
    void write(vf::Writer& w) const {
        w.u(cells.size());
        for (auto& c : cells) {
            w.i(c.cls), w.i(c.family), w.i(c.param), w.d(c.density), w.d(c.scale);
            for (double v : c.off) w.d(v);
            w.i(c.merge_first);
            w.nl();
        }
        w.u(couplings.size());
        for (auto& c : couplings) w.u(c.ca), w.u(c.na), w.u(c.cb), w.u(c.nb);
        w.nl();
        w.d(dt), w.d(damping), w.i(steps), w.i(threads), w.u(fseed), w.d(fmag), w.d(pmag);
        w.nl();
    }
    static Case read(vf::Reader& r) {
        Case k;
        size_t n = r.u();
        for (size_t i = 0; i < n; i++) {
            CellSpec c;
            c.cls = (int)r.i(), c.family = (int)r.i(), c.param = (int)r.i(), c.density = r.d(), c.scale = r.d();
            for (double& v : c.off) v = r.d();
            c.merge_first = (int)r.i();
            k.cells.push_back(c);
        }
        n = r.u();
        for (size_t i = 0; i < n; i++) {
            Coupling c;
            c.ca = (unsigned)r.u(), c.na = (unsigned)r.u(), c.cb = (unsigned)r.u(), c.nb = (unsigned)r.u();
            k.couplings.push_back(c);
        }
        k.dt = r.d(), k.damping = r.d(), k.steps = (int)r.i(), k.threads = (int)r.i(), k.fseed = (unsigned)r.u(), k.fmag = r.d(), k.pmag = r.d();
        return k;
    }
};

static rc::Gen<Case> genCase() {
    using namespace vf;
    return rc::gen::exec([]() {
        Case k;
        int nc = *irange(2, 6);
        for (int i = 0; i < nc; i++) {
            CellSpec c;
            c.cls = *rc::gen::weightedElement<int>({{5, 0}, {1, 1}, {2, 2}, {2, 3}, {1, 4}});
            c.family = *irange(0, 5);
            c.param = c.family == 3 ? *irange(0, 1) : *irange(3, 7);
            c.density = *loguniform(1e-3, 1e3);
            c.scale = *rc::gen::element(1.0, 1e-5, 2.5, 0.1);
            for (double& v : c.off) v = *uniform(-50, 50);
            c.merge_first = *irange(0, 2) == 0;
            k.cells.push_back(c);
        }
        int np = *irange(0, 8);
        for (int i = 0; i < np; i++)
            k.couplings.push_back({(unsigned)*irange(0, nc - 1), (unsigned)*irange(0, 1000), (unsigned)*irange(0, nc - 1), (unsigned)*irange(0, 1000)});
        k.dt = *loguniform(1e-6, 1e0);
        k.damping = *loguniform(1e-3, 1e3);
        k.steps = *irange(1, 5);
        k.threads = *rc::gen::element(1, 1, 2, 3, 4, 8, 16);
        k.fseed = (unsigned)*irange(1, 1 << 30);
        k.fmag = *rc::gen::oneOf(rc::gen::just(0.0), loguniform(1e-6, 1e3));
        k.pmag = *rc::gen::oneOf(rc::gen::just(0.0), loguniform(1e-9, 1e2));
        return k;
    });
}

static uint64_t splitmix(uint64_t& s) {
    uint64_t z = (s += 0x9e3779b97f4a7c15ull);
    z = (z ^ (z >> 30)) * 0xbf58476d1ce4e5b9ull;
    z = (z ^ (z >> 27)) * 0x94d049bb133111ebull;
    return z ^ (z >> 31);
}
static double u11(uint64_t& s) { return (double)(splitmix(s) >> 11) / (double)(1ull << 53) * 2 - 1; }

struct NodeState {
    V3 x, p, f;
    bool used;
};

// strictly increasing ids with gaps (what removals and divisions leave behind), derived from the content of the case
static unsigned id_offset(const Case& k, size_t i) {
    uint64_t b;
    memcpy(&b, &k.dt, 8);
    uint64_t h = b * 0x9e3779b97f4a7c15ull;
    h ^= h >> 29;
    if (h % 3 == 0) return 0;
    unsigned off = (unsigned)((h >> 8) % 4);
    for (size_t q = 0; q < i; q++) {
        h = h * 6364136223846793005ull + 1442695040888963407ull;
        off += (unsigned)((h >> 40) % 3);
    }
    return off;
}

static std::string run(const Case& k, vf::Ctx& ctx) {
    ct::CellScope scope;
    std::vector<cell_ptr> cells;
    for (size_t i = 0; i < k.cells.size(); i++) {
        const CellSpec& cs = k.cells[i];
        mg::ShapeSpec s;
        s.family = cs.family;
        s.param = cs.param;
        TriMesh m = mg::build_shape(s);
        for (size_t j = 0; j < m.nn(); j++)
            for (int q = 0; q < 3; q++) m.xyz[3 * j + q] = m.xyz[3 * j + q] * cs.scale + cs.off[q] * cs.scale;
        auto type = ct::default_cell_type(2);
        type->mass_density_ = cs.density;
        type->global_type_id_ = (short)cs.cls;
        cell_ptr c;
        try {
            // persistent ids are larger than the positions in the list once a population has seen removals or divisions (2/3 of the cases)
            c = ct::make_cell_of_class(cs.cls, m, (unsigned)i + id_offset(k, i), type);
        } catch (const std::exception& e) {
            return std::string("cell rejects generated mesh: ") + e.what();
        }
        scope.add(c);
        c->set_local_id((unsigned)i);
        if (cs.merge_first && c->get_nb_of_faces() >= 8) {
            // real edge collapse -> free node and face slots inside the vectors
            local_mesh_refiner lmr(1.0, 3.0, false);
            for (const edge& e0 : std::vector<edge>(c->get_edge_set().begin(), c->get_edge_set().end())) {
                edge e = e0;
                if (lmr.can_be_merged(e, c)) {
                    edge_set scratch;
                    try {
                        lmr.merge_edge(e, c, scratch);
                    } catch (const std::exception&) {
                    }
                    break;
                }
            }
            c->update_all_face_normals_and_areas();
            cell_tester::area(*c) = c->compute_area();
            cell_tester::volume(*c) = c->compute_volume();
        }
        cells.push_back(c);
    }
    global_simulation_parameters sp;
    sp.time_step_ = k.dt;
    sp.damping_coefficient_ = k.damping;
    time_integration_scheme integ(sp, false);
    omp_set_num_threads(k.threads);

    // couplings: mutual, between distinct non-static cells, each node in at most one pair
    std::set<std::pair<unsigned, unsigned>> taken;
    std::vector<Coupling> pairs;
    for (auto cp : k.couplings) {
        if (cp.ca == cp.cb || cp.ca >= cells.size() || cp.cb >= cells.size()) continue;
        if (cells[cp.ca]->is_static() || cells[cp.cb]->is_static()) continue;
        auto pick = [&](unsigned ci, unsigned key) -> int {
            std::vector<unsigned> live;
            auto& nl = cell_tester::nodes(*cells[ci]);
            for (unsigned j = 0; j < nl.size(); j++)
                if (nl[j].is_used() && !taken.count({ci, j})) live.push_back(j);
            if (live.empty()) return -1;
            return (int)live[key % live.size()];
        };
        int a = pick(cp.ca, cp.na), b = pick(cp.cb, cp.nb);
        if (a < 0 || b < 0) continue;
        taken.insert({cp.ca, (unsigned)a});
        taken.insert({cp.cb, (unsigned)b});
        pairs.push_back({cp.ca, (unsigned)a, cp.cb, (unsigned)b});
    }
#if CONTACT_MODEL_INDEX == 0
    pairs.clear();  // this contact model has no couplings
#endif
    for (auto& p : pairs) {
        node& na = cell_tester::nodes(*cells[p.ca])[p.na];
        node& nb = cell_tester::nodes(*cells[p.cb])[p.nb];
#if CONTACT_MODEL_INDEX == 1
        na.set_coupled_node_and_min_distance({p.cb, p.nb}, 0.);
        nb.set_coupled_node_and_min_distance({p.ca, p.na}, 0.);
#elif CONTACT_MODEL_INDEX == 2
        na.set_coupled_node_and_min_distance(p.cb, p.nb, 0.);
        nb.set_coupled_node_and_min_distance(p.ca, p.na, 0.);
#endif
        (void)na, (void)nb;
    }
    std::map<std::pair<unsigned, unsigned>, std::pair<unsigned, unsigned>> partner;
    for (auto& p : pairs) {
        partner[{p.ca, p.na}] = {p.cb, p.nb};
        partner[{p.cb, p.nb}] = {p.ca, p.na};
    }

    uint64_t rs = k.fseed;
    double t_expect = 0;
    bool any_static = false;
    for (auto& c : cells) any_static |= c->is_static();
    std::ostringstream os;
    os << std::setprecision(17);
    for (int step = 0; step < k.steps; step++) {
        // assign forces (every step) and momenta (first step)
        std::vector<std::vector<NodeState>> before(cells.size());
        for (size_t ci = 0; ci < cells.size(); ci++) {
            auto& nl = cell_tester::nodes(*cells[ci]);
            const double L = k.cells[ci].scale;
            for (auto& n : nl) {
                if (n.is_used()) {
                    n.set_force(vec3(u11(rs) * k.fmag * L, u11(rs) * k.fmag * L, u11(rs) * k.fmag * L));
#if DYNAMIC_MODEL_INDEX == 0
                    if (step == 0) n.set_momentum(vec3(u11(rs) * k.pmag * L, u11(rs) * k.pmag * L, u11(rs) * k.pmag * L));
#endif
                }
                NodeState s;
                s.x = ct::to_v3(n.pos());
                s.f = ct::to_v3(n.force());
#if DYNAMIC_MODEL_INDEX == 0
                s.p = ct::to_v3(n.momentum());
#endif
                s.used = n.is_used();
                before[ci].push_back(s);
            }
        }
        integ.update_nodes_positions(cells);
        t_expect += k.dt;
        if (integ.get_simulation_time() != t_expect) {
            os << "step " << step << ": simulation time " << integ.get_simulation_time() << " != " << t_expect << " (one time step per update)";
            return os.str();
        }
        const ld dt = k.dt, cdamp = k.damping;
        for (size_t ci = 0; ci < cells.size(); ci++) {
            cell& C = *cells[ci];
            auto& nl = cell_tester::nodes(C);
            const ld m = (ld)C.get_cell_type()->mass_density_ * (ld)C.get_volume() / (ld)C.get_nb_of_nodes();
            for (unsigned ni = 0; ni < nl.size(); ni++) {
                const NodeState& b = before[ci][ni];
                V3 x = ct::to_v3(nl[ni].pos()), f = ct::to_v3(nl[ni].force());
#if DYNAMIC_MODEL_INDEX == 0
                V3 p = ct::to_v3(nl[ni].momentum());
#else
                V3 p;
#endif
                auto same = [](const V3& a, const V3& c) { return a.x == c.x && a.y == c.y && a.z == c.z; };
                if (C.is_static() || !b.used) {
                    if (!same(x, b.x) || !same(p, b.p)) {
                        os << "step " << step << ": node " << ni << " of " << (C.is_static() ? "static cell " : "cell (dead slot) ") << ci
                           << " changed: x (" << (double)b.x.x << "," << (double)b.x.y << "," << (double)b.x.z << ") -> (" << (double)x.x << ","
                           << (double)x.y << "," << (double)x.z << ")";
                        return os.str();
                    }
                    continue;
                }
                if (f.x != 0 || f.y != 0 || f.z != 0) {
                    os << "step " << step << ": force accumulator of node " << ni << " of cell " << ci << " not reset: (" << (double)f.x << ","
                       << (double)f.y << "," << (double)f.z << ")";
                    return os.str();
                }
                auto it = partner.find({(unsigned)ci, ni});
                if (it == partner.end()) {
                    V3 pe, xe;
#if DYNAMIC_MODEL_INDEX == 0
                    pe = b.p + (b.f - b.p * (cdamp / m)) * dt;
                    xe = b.x + pe * (dt / m);
                    ld tp = 16 * EPS * (b.p.norm() + (b.f.norm() + b.p.norm() * cdamp / m) * dt) + 1e-300;
                    if ((p - pe).norm() > tp) {
                        os << "step " << step << ": momentum of node " << ni << " of cell " << ci << " is (" << (double)p.x << "," << (double)p.y
                           << "," << (double)p.z << "), law gives (" << (double)pe.x << "," << (double)pe.y << "," << (double)pe.z << ") mass "
                           << (double)m;
                        return os.str();
                    }
                    ld tx = 16 * EPS * (b.x.norm() + pe.norm() * dt / m) + tp * dt / m;
#else
                    xe = b.x + b.f * (dt / cdamp);
                    ld tx = 16 * EPS * (b.x.norm() + b.f.norm() * dt / cdamp) + 1e-300;
#endif
                    if ((x - xe).norm() > tx) {
                        os << "step " << step << ": position of node " << ni << " of cell " << ci << " is (" << (double)x.x << "," << (double)x.y
                           << "," << (double)x.z << "), law gives (" << (double)xe.x << "," << (double)xe.y << "," << (double)xe.z << ") mass "
                           << (double)m << " dt " << k.dt;
                        return os.str();
                    }
                } else if (std::make_pair((unsigned)ci, ni) < it->second) {  // judge each pair once
                    const unsigned cj = it->second.first, nj = it->second.second;
                    cell& D = *cells[cj];
                    const NodeState& b2 = before[cj][nj];
                    node& n2 = cell_tester::nodes(D)[nj];
                    V3 x2 = ct::to_v3(n2.pos());
                    const ld m2 = (ld)D.get_cell_type()->mass_density_ * (ld)D.get_volume() / (ld)D.get_nb_of_nodes();
                    V3 d1 = x - b.x, d2 = x2 - b2.x;
                    ld tolx = 16 * EPS * (b.x.norm() + b2.x.norm() + d1.norm() + d2.norm()) + 1e-300;
                    if ((d1 - d2).norm() > tolx) {
                        os << "step " << step << ": coupled nodes (" << ci << "," << ni << ") and (" << cj << "," << nj
                           << ") received different displacements |d1-d2| = " << (double)(d1 - d2).norm() << " |d1| = " << (double)d1.norm();
                        return os.str();
                    }
                    const ld mlo = std::min(m, m2), mhi = std::max(m, m2);
#if DYNAMIC_MODEL_INDEX == 0
                    V3 p2 = ct::to_v3(n2.momentum());
                    V3 Pb = b.p + b2.p, Fb = b.f + b2.f, Pa = p + p2;
                    // total momentum: P' = P + (F1+F2 - c P / m_eff) dt for some m_eff in [min(m1,m2), max(m1,m2)]
                    // => P' lies on the segment between the values for m_lo and m_hi
                    V3 Plo = Pb + (Fb - Pb * (cdamp / mlo)) * dt, Phi = Pb + (Fb - Pb * (cdamp / mhi)) * dt;
                    V3 seg = Phi - Plo;
                    // rounding scales with the individual momenta (they may cancel in the pair total when the model does not equalise them)
                    const ld pmag2 = b.p.norm() + b2.p.norm() + p.norm() + p2.norm();
                    ld tpp = 32 * EPS * (pmag2 + (b.f.norm() + b2.f.norm() + pmag2 * cdamp / mlo) * dt) + 1e-300;
                    ld s = seg.n2() > 0 ? (Pa - Plo).dot(seg) / seg.n2() : 0;
                    s = std::max((ld)0, std::min((ld)1, s));
                    if ((Pa - (Plo + seg * s)).norm() > tpp) {
                        os << "step " << step << ": coupled pair (" << ci << "," << ni << ")-(" << cj << "," << nj << ") total momentum ("
                           << (double)Pa.x << "," << (double)Pa.y << "," << (double)Pa.z << ") is not P + (F1+F2 - c P/m) dt for any m between the two node masses; "
                           << "P=(" << (double)Pb.x << "," << (double)Pb.y << "," << (double)Pb.z << ") F=(" << (double)Fb.x << "," << (double)Fb.y << ","
                           << (double)Fb.z << ") m1=" << (double)m << " m2=" << (double)m2 << " c=" << (double)cdamp << " dt=" << (double)dt << " s=" << (double)s
                           << " dist=" << (double)(Pa - (Plo + seg * s)).norm() << " tol=" << (double)tpp;
                        return os.str();
                    }
                    // displacement = (updated pair momentum / 2) dt / m_eff, m_eff in the same bracket
                    V3 pm = Pa * 0.5L;
                    ld dn = d1.norm(), lo = pm.norm() * dt / mhi, hi = pm.norm() * dt / mlo;
                    ld td = tolx + tpp * dt / mlo;
                    if (dn < lo - td || dn > hi + td || (pm.norm() > 0 && (d1 - pm * (dn / pm.norm())).norm() > 8 * td)) {
                        os << "step " << step << ": coupled pair (" << ci << "," << ni << ")-(" << cj << "," << nj << ") displacement |d| = "
                           << (double)dn << " is not (updated momentum) dt / m for a mass between the node masses: allowed [" << (double)lo << ","
                           << (double)hi << "]";
                        return os.str();
                    }
#else
                    V3 de = (b.f + b2.f) * (0.5L * dt / cdamp);
                    if ((d1 - de).norm() > tolx + 16 * EPS * de.norm()) {
                        os << "step " << step << ": overdamped coupled pair displacement differs from (F1+F2)/2 dt/c";
                        return os.str();
                    }
                    (void)mlo, (void)mhi;
#endif
                    V3 f2 = ct::to_v3(n2.force());
                    if (f2.x != 0 || f2.y != 0 || f2.z != 0) return "force accumulator of a coupled node not reset";
                }
            }
        }
    }
    ctx.count("steps", k.steps);
    if (!pairs.empty()) ctx.count("with_coupled_pair");
    if (any_static) ctx.count("with_static_cell");
    if (k.threads > 1) ctx.count("multi_threaded");
    bool free_slots = false;
    for (auto& c : cells) free_slots |= !cell_tester::free_nodes(*c).empty();
    if (free_slots) ctx.count("with_free_slots");
    const bool coupled_ok = !pairs.empty() || CONTACT_MODEL_INDEX == 0;
    if (coupled_ok && any_static && k.steps >= 2) {
        ctx.nontriv();
        std::ostringstream s2;
        s2 << cells.size() << " cells, " << pairs.size() << " coupled pairs, " << k.steps << " steps, dt=" << k.dt << " c=" << k.damping
           << " threads=" << k.threads;
        ctx.sample(s2.str());
    }
    return "";
}

int main(int argc, char** argv) {
    std::vector<vf::Sub> subs;
    subs.push_back(vf::make_sub<Case>("step", genCase, run));
    return vf::engine_main(argc, argv, "C03_integrate", subs);
}
