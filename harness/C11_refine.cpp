// C11 — remeshing is physically neutral, selective and terminating.
// Oracle: trace-driven shadow model.  The refiner emits one record per operation (hook H4); the harness replays the
// records on its own copy of the mesh taken before the pass (positions, triangles, labels, momenta) and requires the
// cell after the pass to equal the shadow: positions bit for bit, triangles and labels exactly, momenta to rounding.
#include "common/celltools.hpp"
#include <unordered_map>

#include "common/engine.hpp"
#include "common/meshgen.hpp"
#include "common/polygen.hpp"

#include "local_mesh_refiner.hpp"
#include "verif_hooks.hpp"

using namespace vg;

struct PassSpec {
    int swap = 1;
    int field = 0;       // displacement applied before the pass (0 none)
    unsigned seed = 0;
    double amp = 0, ax[3] = {0, 0, 1};
};
struct Case {
    TriMesh mesh;
    std::vector<unsigned> labels;
    int band_class = 0;   // 0 all edges in band, 1 some too long, 2 some too short, 3 both, 4 heavy
    double band_pos = 0.5;
    unsigned pseed = 1;
    double pmag = 1;
    std::vector<PassSpec> passes;
    std::string shape;
    void write(vf::Writer& w) const {
        mg::write_mesh(w, mesh);
        w.vu(labels);
        w.i(band_class), w.d(band_pos), w.u(pseed), w.d(pmag), w.u(passes.size());
        w.nl();
        for (auto& p : passes) {
            w.i(p.swap), w.i(p.field), w.u(p.seed), w.d(p.amp);
            for (double v : p.ax) w.d(v);
            w.nl();
        }
    }
    static Case read(vf::Reader& r) {
        Case c;
        c.mesh = mg::read_mesh(r);
        c.labels = r.vu();
        c.band_class = (int)r.i(), c.band_pos = r.d(), c.pseed = (unsigned)r.u(), c.pmag = r.d();
        size_t n = r.u();
        for (size_t i = 0; i < n; i++) {
            PassSpec p;
            p.swap = (int)r.i(), p.field = (int)r.i(), p.seed = (unsigned)r.u(), p.amp = r.d();
            for (double& v : p.ax) v = r.d();
            c.passes.push_back(p);
        }
        return c;
    }
};

static rc::Gen<Case> genCase() {
    using namespace vf;
    return rc::gen::exec([]() {
        Case c;
        mg::ShapeSpec s = *mg::genShape(2);
        if (*irange(0, 2) == 0) {  // well-shaped meshes (conforming-mesh clause)
            s = mg::ShapeSpec();
            s.family = 3;
            s.param = *irange(1, 2);
            if (*irange(0, 1)) s.sx = *uniform(0.8, 1.25), s.sy = *uniform(0.8, 1.25);
        }
        if (s.family <= 2 && s.refine.size() < 4) s.family = 3, s.param = *irange(0, 2);
        mg::Placement pl = *mg::genPlacement(true);
        c.mesh = mg::place(mg::build_shape(s), pl);
        c.shape = s.describe();
        for (size_t t = 0; t < c.mesh.nt(); t++) c.labels.push_back((unsigned)*irange(0, 2));
        c.band_class = *irange(0, 4);
        c.band_pos = *uniform(0.0, 1.0);
        c.pseed = (unsigned)*irange(1, 1 << 30);
        c.pmag = *rc::gen::oneOf(rc::gen::just(0.0), loguniform(1e-6, 1e2));
        const bool ties = *irange(0, 9) == 0;
        if (ties) {
            // exact ties: a box with integer (times a power of two) coordinates has edges whose squared length is exact, and the band limit is
            // put exactly ON one of those lengths (class 5: l_max, class 6: l_min). "Longer than" / "shorter than" are strict.
            static const int S[][3] = {{3, 4, 3}, {3, 4, 6}, {6, 8, 5}, {5, 12, 4}, {1, 1, 1}, {2, 3, 4}, {4, 3, 12}};
            const int* q = S[*irange(0, 6)];
            const double sc = *rc::gen::element(1.0, 0.5, 0.25, 1.0 / 1048576, 64.0);
            c.mesh = pg::triangulate(pg::box(q[0] * sc, q[1] * sc, q[2] * sc));
            const double tx = *irange(-8, 8) * sc, ty = *irange(-8, 8) * sc, tz = *irange(-8, 8) * sc;
            for (size_t i = 0; i < c.mesh.nn(); i++) c.mesh.xyz[3 * i] += tx, c.mesh.xyz[3 * i + 1] += ty, c.mesh.xyz[3 * i + 2] += tz;
            c.shape = "integer box";
            c.labels.clear();
            for (size_t t = 0; t < c.mesh.nt(); t++) c.labels.push_back((unsigned)*irange(0, 2));
            c.band_class = *rc::gen::element(5, 6);
        }
        int np = *irange(1, 4);
        for (int i = 0; i < np; i++) {
            PassSpec p;
            p.swap = *irange(0, 1);
            p.field = i == 0 ? (ties ? 0 : *rc::gen::element(0, 0, 0, 3)) : *irange(0, 3);
            p.seed = (unsigned)*irange(1, 1 << 30);
            p.amp = *uniform(0.0, 1.0);
            for (double& v : p.ax) v = *uniform(-1, 1);
            c.passes.push_back(p);
        }
        return c;
    });
}

static uint64_t splitmix(uint64_t& s) {
    uint64_t z = (s += 0x9e3779b97f4a7c15ull);
    z = (z ^ (z >> 30)) * 0xbf58476d1ce4e5b9ull;
    z = (z ^ (z >> 27)) * 0x94d049bb133111ebull;
    return z ^ (z >> 31);
}
static double u11(uint64_t& s) { return (double)(splitmix(s) >> 11) / (double)(1ull << 53) * 2 - 1; }

// ---- trace capture (hook H4)
static std::vector<simucell3d_verif::refine_op> g_trace;
static void on_refine_op(const simucell3d_verif::refine_op& op) { g_trace.push_back(op); }

struct ShadowTri {
    unsigned n[3];
    unsigned label;
    bool from_swap;
    bool dead = false;
};
struct Shadow {
    std::map<unsigned, std::array<double, 3>> pos;  // live nodes
    std::map<unsigned, V3> mom;
    std::map<unsigned, ld> merr;  // running bound on the rounding error the code's double arithmetic may have put into that momentum during this pass
    std::vector<ShadowTri> tris;                          // including dead ones (a pass may perform 1e5 operations: no rebuilding)
    std::unordered_map<unsigned, std::vector<int>> idx;   // node -> triangles that contain(ed) it; entries are verified on use
    void index(int i) {
        for (unsigned v : tris[i].n) idx[v].push_back(i);
    }
    size_t live_tris() const {
        size_t k = 0;
        for (auto& t : tris) k += !t.dead;
        return k;
    }
    int find_tris(unsigned a, unsigned b, int out[2]) const {
        std::vector<int> found;
        auto it = idx.find(a);
        if (it == idx.end()) return 0;
        for (int i : it->second) {
            const ShadowTri& t = tris[i];
            if (t.dead) continue;
            bool ha = false, hb = false;
            for (unsigned v : t.n) ha |= v == a, hb |= v == b;
            if (ha && hb && std::find(found.begin(), found.end(), i) == found.end()) found.push_back(i);
        }
        for (size_t k = 0; k < found.size() && k < 2; k++) out[k] = found[k];
        return (int)found.size();
    }
};

static std::array<unsigned, 3> sorted3(unsigned a, unsigned b, unsigned c) {
    std::array<unsigned, 3> s = {a, b, c};
    std::sort(s.begin(), s.end());
    return s;
}

static std::string run(const Case& k, vf::Ctx& ctx) {
    const TriMesh& m0 = k.mesh;
    if (m0.nt() < 8) return "";
    // edge-length band placed relative to the edge length distribution of the start mesh
    std::vector<ld> el;
    for (size_t t = 0; t < m0.nt(); t++)
        for (int j = 0; j < 3; j++) el.push_back((m0.p(m0.tri[3 * t + j]) - m0.p(m0.tri[3 * t + (j + 1) % 3])).norm());
    std::sort(el.begin(), el.end());
    const ld emin = el.front(), emax = el.back(), emed = el[el.size() / 2];
    double lmin;
    switch (k.band_class) {
        case 0: lmin = (double)(emax / 3 * 1.02 + (emin * 0.98 - emax / 3 * 1.02) * k.band_pos); if (!(lmin > 0) || emax / 3 * 1.02 > emin * 0.98) lmin = (double)(emin * 0.98); break;
        case 1: lmin = (double)(emed / 3 * (0.5 + 0.5 * k.band_pos)); if (lmin > emin) lmin = (double)(emin * 0.9); break;   // long edges only
        case 2: lmin = (double)(emin + (emed - emin) * 0.5 * k.band_pos); break;                                             // short edges
        case 3: lmin = (double)(emed * (0.4 + 0.3 * k.band_pos)); break;
        default: lmin = (double)(emed * (0.7 + 0.4 * k.band_pos)); break;
    }
    double lmax = 3 * lmin;
    if (k.band_class >= 5) {
        // band limit exactly on an edge length: candidates are the edges whose squared length (the code's own formula) has an exact root
        std::vector<double> cand;
        for (size_t t = 0; t < m0.nt(); t++)
            for (int j = 0; j < 3; j++) {
                const unsigned a = m0.tri[3 * t + j], b = m0.tri[3 * t + (j + 1) % 3];
                const double dx = m0.xyz[3 * a] - m0.xyz[3 * b], dy = m0.xyz[3 * a + 1] - m0.xyz[3 * b + 1], dz = m0.xyz[3 * a + 2] - m0.xyz[3 * b + 2];
                const double l2 = dx * dx + dy * dy + dz * dz, r = std::sqrt(l2);
                if (r * r == l2) cand.push_back(r);
            }
        std::sort(cand.begin(), cand.end());
        cand.erase(std::unique(cand.begin(), cand.end()), cand.end());
        if (cand.empty()) return "";
        const double r = cand[std::min(cand.size() - 1, (size_t)(k.band_pos * cand.size()))];
        if (k.band_class == 5) lmax = r, lmin = r / 3;
        else lmin = r, lmax = 3 * r;
        ctx.count(k.band_class == 5 ? "band_l_max_exactly_on_an_edge_length" : "band_l_min_exactly_on_an_edge_length");
    }
    if (!(lmin > 0)) return "";
    auto type = ct::default_cell_type(3);
    ct::CellScope scope;
    std::shared_ptr<epithelial_cell> c;
    try {
        c = ct::make_cell<epithelial_cell>(m0, 0, type);
    } catch (const std::exception& e) {
        return std::string("cell rejects generated mesh: ") + e.what();
    }
    scope.add(c);
    cell& C = *c;
    {
        auto& fl = cell_tester::faces(C);
        for (size_t t = 0; t < fl.size() && t < k.labels.size(); t++) cell_tester::face_type(fl[t]) = (unsigned short)k.labels[t];
        uint64_t rs = k.pseed;
        const double L = (double)emed;
#if DYNAMIC_MODEL_INDEX == 0
        for (auto& n : cell_tester::nodes(C))
            if (n.is_used()) n.set_momentum(vec3(u11(rs) * k.pmag * L, u11(rs) * k.pmag * L, u11(rs) * k.pmag * L));
#endif
        (void)rs, (void)L;
    }
    simucell3d_verif::refine_trace() = on_refine_op;
    std::ostringstream os;
    os << std::setprecision(17);
    bool any_split_and_merge = false, any_fixpoint = false, any_pure_split = false;
    long total_ops = 0;
    int pass_no = 0;
    for (const PassSpec& ps : k.passes) {
        pass_no++;
        // displacement between passes (what the time integration does), then the solver-style refresh
        if (ps.field != 0) {
            uint64_t rs = ps.seed;
            V3 cen;
            size_t n = 0;
            for (auto& nd : cell_tester::nodes(C))
                if (nd.is_used()) cen = cen + ct::to_v3(nd.pos()), n++;
            cen = cen * ((ld)1 / n);
            V3 ax(ps.ax[0], ps.ax[1], ps.ax[2]);
            if (ax.norm() < 1e-3) ax = V3(0, 0, 1);
            ax = ax * (1 / ax.norm());
            for (auto& nd : cell_tester::nodes(C)) {
                if (!nd.is_used()) continue;
                V3 p = ct::to_v3(nd.pos()), r = p - cen, q = p;
                if (ps.field == 1) q = p + V3(u11(rs), u11(rs), u11(rs)) * (ps.amp * 0.4 * lmin);
                else if (ps.field == 2) q = p + ax * (r.dot(ax) * ps.amp * 1.5);
                else q = p - ax * (r.dot(ax) * ps.amp * 0.92);  // strong compression: sliver triangles
                cell_tester::pos(nd) = ct::to_vec3(q);
            }
        }
        // a pass that follows another one directly (the divider refines the daughters and the solver refines them again in the same iteration,
        // before any force computation) sees the caches exactly as the previous pass left them
        if (ps.field != 0 || pass_no == 1) C.update_all_face_normals_and_areas();
        else ctx.count("pass_directly_after_a_pass_without_cache_refresh");
        // ---- snapshot (shadow model)
        Shadow sh;
        {
            auto& nl = cell_tester::nodes(C);
            for (unsigned i = 0; i < nl.size(); i++)
                if (nl[i].is_used()) {
                    sh.pos[i] = {nl[i].pos().dx(), nl[i].pos().dy(), nl[i].pos().dz()};
#if DYNAMIC_MODEL_INDEX == 0
                    sh.mom[i] = ct::to_v3(nl[i].momentum());
#endif
                }
            auto& fl = cell_tester::faces(C);
            for (auto& t : ct::live_triangles(C)) sh.tris.push_back({{t[0], t[1], t[2]}, cell_tester::face_type(fl[t[3]]), false});
            for (size_t i = 0; i < sh.tris.size(); i++) sh.index((int)i);
        }
        const TriMesh before = ct::snapshot(C);
        const std::vector<node> nodes_before = cell_tester::nodes(C);
        const std::vector<face> faces_before = cell_tester::faces(C);
        const edge_set edges_before = cell_tester::edges(C);
        V3 Pb, Pabs;
        for (auto& kv : sh.mom) Pb = Pb + kv.second, Pabs = Pabs + V3(fabsl(kv.second.x), fabsl(kv.second.y), fabsl(kv.second.z));
        // independent conformity test of the mesh before the pass (with a safety margin on every decision)
        bool conforming = true;
        {
            const ld qmin = 36 / sqrtl(3.0L);
            for (auto& t : sh.tris) {
                V3 a = before.p(t.n[0]), b = before.p(t.n[1]), cc = before.p(t.n[2]);
                ld l1 = (a - b).norm(), l2 = (b - cc).norm(), l3 = (cc - a).norm();
                for (ld l : {l1, l2, l3})
                    if (!(l > lmin * (1 + 1e-9) && l < lmax * (1 - 1e-9))) conforming = false;
                ld score = qmin * vg::tri_area(a, b, cc) / ((l1 + l2 + l3) * (l1 + l2 + l3));
                if (ps.swap && !(score > 0.2 * (1 + 1e-9))) conforming = false;
            }
        }
        g_trace.clear();
        local_mesh_refiner lmr(lmin, lmax, ps.swap != 0);
        bool threw = false;
        try {
            lmr.refine_mesh(c);
        } catch (const mesh_integrity_exception&) {
            threw = true;
        } catch (const std::exception& e) {
            simucell3d_verif::refine_trace() = nullptr;
            return "pass " + std::to_string(pass_no) + ": unexpected exception type " + typeid(e).name() + ": " + e.what();
        }
        if (threw) {
            ctx.count("pass_reported_failure_by_exception");
            break;  // the solver stops here; the statement allows failure by exception
        }
        total_ops += (long)g_trace.size();
        // ---- replay the trace on the shadow
        int nsplit = 0, nmerge = 0, nswap = 0;
        for (const auto& op : g_trace) {
            if (getenv("VERIF_DEBUG")) {
                fprintf(stderr, "op kind=%d a=%u b=%u new=%u | shadow tris:", op.kind, op.id_a, op.id_b, op.new_id);
                if (sh.tris.size() < 200)
                    for (auto& t : sh.tris)
                        if (!t.dead) fprintf(stderr, " (%u,%u,%u:%u)", t.n[0], t.n[1], t.n[2], t.label);
                fprintf(stderr, "\n");
            }
            if (op.cell_ptr != (const void*)c.get()) return "trace record for another cell";
            auto ia = sh.pos.find(op.id_a), ib = sh.pos.find(op.id_b);
            if (ia == sh.pos.end() || ib == sh.pos.end()) {
                os << "pass " << pass_no << ": operation " << op.kind << " on edge " << op.id_a << "-" << op.id_b << " whose nodes are not live in the replayed mesh";
                return os.str();
            }
            const std::array<double, 3> pa = ia->second, pb = ib->second;
            for (int q = 0; q < 3; q++)
                if (pa[q] != op.pos_a[q] || pb[q] != op.pos_b[q]) {
                    os << "pass " << pass_no << ": node " << (pa[q] != op.pos_a[q] ? op.id_a : op.id_b)
                       << " moved during the pass although it survives (position at operation time differs from its position before the pass)";
                    return os.str();
                }
            const double dx = pa[0] - pb[0], dy = pa[1] - pb[1], dz = pa[2] - pb[2];
            const double l2 = dx * dx + dy * dy + dz * dz;
            int tt[2];
            int nt = sh.find_tris(op.id_a, op.id_b, tt);
            if (nt != 2) {
                os << "pass " << pass_no << ": operation on edge " << op.id_a << "-" << op.id_b << " which has " << nt << " triangles in the replayed mesh";
                return os.str();
            }
            if (op.kind == 0) {  // split
                nsplit++;
                if (!(l2 > lmax * lmax)) {
                    os << "pass " << pass_no << ": split of edge " << op.id_a << "-" << op.id_b << " of length " << std::sqrt(l2) << " which is not longer than l_max = " << lmax;
                    return os.str();
                }
                std::array<double, 3> mid = {(pb[0] + pa[0]) * 0.5, (pb[1] + pa[1]) * 0.5, (pb[2] + pa[2]) * 0.5};
                if (sh.pos.count(op.new_id)) return "split created a node in a slot that is live";
                sh.pos[op.new_id] = mid;
#if DYNAMIC_MODEL_INDEX == 0
                V3 ma = sh.mom[op.id_a], mb = sh.mom[op.id_b];
                sh.mom[op.id_a] = ma * (2.0L / 3), sh.mom[op.id_b] = mb * (2.0L / 3), sh.mom[op.new_id] = (ma + mb) * (1.0L / 3);
                {
                    const ld ea = sh.merr[op.id_a], eb = sh.merr[op.id_b];
                    sh.merr[op.id_a] = ea + 2 * EPS * ma.norm(), sh.merr[op.id_b] = eb + 2 * EPS * mb.norm();
                    sh.merr[op.new_id] = ea + eb + 4 * EPS * (ma.norm() + mb.norm());
                }
#endif
                ShadowTri t1 = sh.tris[tt[0]], t2 = sh.tris[tt[1]];
                for (int which = 0; which < 2; which++) {
                    ShadowTri& t = sh.tris[tt[which]];
                    ShadowTri u = t;  // copy: t keeps a, u keeps b
                    for (unsigned& v : t.n)
                        if (v == op.id_b) v = op.new_id;
                    for (unsigned& v : u.n)
                        if (v == op.id_a) v = op.new_id;
                    sh.idx[op.new_id].push_back(tt[which]);
                    sh.tris.push_back(u);
                    sh.index((int)sh.tris.size() - 1);
                }
            } else if (op.kind == 1) {  // merge
                nmerge++;
                if (!(l2 < lmin * lmin)) {
                    os << "pass " << pass_no << ": collapse of edge " << op.id_a << "-" << op.id_b << " of length " << std::sqrt(l2) << " which is not shorter than l_min = " << lmin;
                    return os.str();
                }
                std::array<double, 3> mid = {(pb[0] + pa[0]) * 0.5, (pb[1] + pa[1]) * 0.5, (pb[2] + pa[2]) * 0.5};
                if (sh.pos.count(op.new_id)) return "collapse created a node in a slot that is live";
#if DYNAMIC_MODEL_INDEX == 0
                V3 ms = sh.mom[op.id_a] + sh.mom[op.id_b];
                const ld em = sh.merr[op.id_a] + sh.merr[op.id_b] + 2 * EPS * (sh.mom[op.id_a].norm() + sh.mom[op.id_b].norm());
                sh.mom.erase(op.id_a), sh.mom.erase(op.id_b);
                sh.merr.erase(op.id_a), sh.merr.erase(op.id_b);
                sh.mom[op.new_id] = ms;
                sh.merr[op.new_id] = em;
#endif
                sh.pos.erase(op.id_a), sh.pos.erase(op.id_b);
                sh.pos[op.new_id] = mid;
                sh.tris[tt[0]].dead = sh.tris[tt[1]].dead = true;
                for (unsigned old : {op.id_a, op.id_b}) {
                    auto it = sh.idx.find(old);
                    if (it == sh.idx.end()) continue;
                    std::vector<int> lst = it->second;
                    sh.idx.erase(old);  // the slot may be recycled by a later operation
                    for (int i : lst) {
                        ShadowTri& t = sh.tris[i];
                        if (t.dead) continue;
                        bool touched = false;
                        for (unsigned& v : t.n)
                            if (v == old) v = op.new_id, touched = true;
                        if (touched) sh.idx[op.new_id].push_back(i);
                    }
                }
            } else {  // swap: (a,b,c),(a,b,d) -> (a,d,c),(b,c,d); labels of the new faces are not constrained by the statement
                nswap++;
                if (!ps.swap) return "edge swap performed although swapping is disabled";
                unsigned cn = 0, dn = 0;
                for (unsigned v : sh.tris[tt[0]].n)
                    if (v != op.id_a && v != op.id_b) cn = v;
                for (unsigned v : sh.tris[tt[1]].n)
                    if (v != op.id_a && v != op.id_b) dn = v;
                sh.tris[tt[0]] = {{op.id_a, dn, cn}, 0, true};
                sh.tris[tt[1]] = {{op.id_b, cn, dn}, 0, true};
                sh.index(tt[0]), sh.index(tt[1]);
            }
        }
        // ---- compare the cell with the shadow
        {
            auto& nl = cell_tester::nodes(C);
            size_t live = 0;
            for (unsigned i = 0; i < nl.size(); i++) {
                if (!nl[i].is_used()) continue;
                live++;
                auto it = sh.pos.find(i);
                if (it == sh.pos.end()) {
                    os << "pass " << pass_no << ": node " << i << " exists after the pass but no traced operation created it";
                    return os.str();
                }
                if (nl[i].pos().dx() != it->second[0] || nl[i].pos().dy() != it->second[1] || nl[i].pos().dz() != it->second[2]) {
                    os << "pass " << pass_no << ": node " << i << " is at (" << nl[i].pos().dx() << "," << nl[i].pos().dy() << "," << nl[i].pos().dz()
                       << ") but the replayed operations put it at (" << it->second[0] << "," << it->second[1] << "," << it->second[2]
                       << ") (a surviving node moved, or a new node is not at the midpoint of its edge)";
                    return os.str();
                }
#if DYNAMIC_MODEL_INDEX == 0
                V3 mm = ct::to_v3(nl[i].momentum()), me = sh.mom[i];
                // a node that took part in many operations of one pass (a chain of collapses that absorbs its neighbours, with cancelling
                // momenta) carries the rounding of every one of them: the bound accumulated along the replay is added to the flat tolerance
                if ((mm - me).norm() > 64 * EPS * (me.norm() + Pabs.norm() / (sh.mom.size() + 1)) + 8 * sh.merr[i] + 1e-300) {
                    os << "pass " << pass_no << ": momentum of node " << i << " is (" << (double)mm.x << "," << (double)mm.y << "," << (double)mm.z
                       << ") but the split/collapse momentum rule gives (" << (double)me.x << "," << (double)me.y << "," << (double)me.z << ")";
                    return os.str();
                }
#endif
            }
            if (live != sh.pos.size()) {
                os << "pass " << pass_no << ": " << live << " live nodes after the pass, the replayed operations leave " << sh.pos.size();
                return os.str();
            }
            // triangles are compared as multisets per node set (two triangles may share all three nodes when the
            // cell has been collapsed to a dihedron)
            std::map<std::array<unsigned, 3>, std::vector<const ShadowTri*>> want;
            for (auto& t : sh.tris)
                if (!t.dead) want[sorted3(t.n[0], t.n[1], t.n[2])].push_back(&t);
            auto& fl = cell_tester::faces(C);
            auto lt = ct::live_triangles(C);
            if (lt.size() != sh.live_tris()) {
                os << "pass " << pass_no << ": " << lt.size() << " triangles after the pass, the replayed operations leave " << sh.live_tris();
                return os.str();
            }
            std::map<std::array<unsigned, 3>, std::vector<unsigned>> got;
            for (auto& t : lt) got[sorted3(t[0], t[1], t[2])].push_back(cell_tester::face_type(fl[t[3]]));
            for (auto& kv : got) {
                auto it = want.find(kv.first);
                if (it == want.end() || it->second.size() != kv.second.size()) {
                    os << "pass " << pass_no << ": triangle (" << kv.first[0] << "," << kv.first[1] << "," << kv.first[2] << ") is not produced by the traced operations";
                    return os.str();
                }
                bool swap_involved = false;
                std::vector<unsigned> wl;
                for (auto* st : it->second) swap_involved |= st->from_swap, wl.push_back(st->label);
                std::vector<unsigned> gl = kv.second;
                std::sort(wl.begin(), wl.end());
                std::sort(gl.begin(), gl.end());
                if (!swap_involved && wl != gl) {
                    os << "pass " << pass_no << ": triangle (" << kv.first[0] << "," << kv.first[1] << "," << kv.first[2] << ") carries face-type label " << gl[0]
                       << " but the triangle it descends from carried " << wl[0];
                    return os.str();
                }
            }
        }
        // ---- momentum conservation (to rounding)
#if DYNAMIC_MODEL_INDEX == 0
        {
            V3 Pa;
            for (auto& nd : cell_tester::nodes(C))
                if (nd.is_used()) Pa = Pa + ct::to_v3(nd.momentum());
            if ((Pa - Pb).norm() > 64 * EPS * (Pabs.norm() + 1e-300) * (1 + g_trace.size())) {
                os << "pass " << pass_no << ": total momentum changed from (" << (double)Pb.x << "," << (double)Pb.y << "," << (double)Pb.z << ") to (" << (double)Pa.x
                   << "," << (double)Pa.y << "," << (double)Pa.z << ")";
                return os.str();
            }
        }
#endif
        // ---- conforming mesh: completely unchanged
        if (conforming) {
            any_fixpoint = true;
            ctx.count("pass_on_conforming_mesh");
            if (!g_trace.empty()) {
                os << "pass " << pass_no << ": " << g_trace.size() << " operation(s) on a mesh whose edges are all inside (l_min, l_max) and whose triangles all score above 0.2";
                return os.str();
            }
            auto& nl = cell_tester::nodes(C);
            auto& fl = cell_tester::faces(C);
            bool same = nl.size() == nodes_before.size() && fl.size() == faces_before.size() && cell_tester::edges(C).size() == edges_before.size();
            for (size_t i = 0; same && i < nl.size(); i++)
                same = nl[i].is_used() == nodes_before[i].is_used() && nl[i].get_local_id() == nodes_before[i].get_local_id() &&
                       nl[i].pos().dx() == nodes_before[i].pos().dx() && nl[i].pos().dy() == nodes_before[i].pos().dy() && nl[i].pos().dz() == nodes_before[i].pos().dz();
            for (size_t i = 0; same && i < fl.size(); i++)
                same = fl[i].is_used() == faces_before[i].is_used() && cell_tester::face_ids(fl[i]) == cell_tester::face_ids(faces_before[i]) &&
                       fl[i].get_local_id() == faces_before[i].get_local_id() && cell_tester::face_type(fl[i]) == cell_tester::face_type(faces_before[i]);
            if (same) {
                auto i1 = cell_tester::edges(C).begin();
                auto i2 = edges_before.begin();
                for (; same && i1 != cell_tester::edges(C).end(); ++i1, ++i2)
                    same = i1->n1() == i2->n1() && i1->n2() == i2->n2() && i1->f1() == i2->f1() && i1->f2() == i2->f2();
            }
            if (!same) return "pass " + std::to_string(pass_no) + ": a conforming mesh was modified by the pass";
        }
        // ---- pure-split pass: volume and area unchanged to rounding
        if (nsplit > 0 && nmerge == 0 && nswap == 0) {
            any_pure_split = true;
            TriMesh after = ct::snapshot(C);
            V3 ref = vg::vertex_mean(before);
            ld Vb = vg::signed_volume(before, ref), Va = vg::signed_volume(after, ref), Ab = vg::area(before), Aa = vg::area(after);
            ld D = ref.norm(), s = vg::mesh_size(before);
            if (fabsl(Va - Vb) > 256 * EPS * (1 + D / (ld)lmin) * fabsl(Vb) + 64 * EPS * s * s * (D + s) * nsplit || fabsl(Aa - Ab) > 256 * EPS * (1 + D / (ld)lmin) * Ab) {
                os << "pass " << pass_no << ": a pass that only split edges changed volume " << (double)Vb << " -> " << (double)Va << " or area " << (double)Ab << " -> " << (double)Aa;
                return os.str();
            }
        }
        if (nsplit && nmerge) any_split_and_merge = true;
        ctx.count("ops_split", nsplit);
        ctx.count("ops_merge", nmerge);
        ctx.count("ops_swap", nswap);
        if (C.get_nb_of_faces() < 10) break;
    }
    simucell3d_verif::refine_trace() = nullptr;
    if (any_pure_split) ctx.count("case_with_pure_split_pass");
    if (any_fixpoint) ctx.count("case_with_conforming_pass");
    if (any_split_and_merge || any_fixpoint) {
        if (any_split_and_merge) ctx.count("case_with_split_and_merge");
        ctx.nontriv();
        std::ostringstream s2;
        s2 << k.shape << " tris=" << m0.nt() << " band_class=" << k.band_class << " lmin=" << lmin << " passes=" << k.passes.size() << " ops=" << total_ops;
        ctx.sample(s2.str());
    }
    return "";
}

int main(int argc, char** argv) {
    std::vector<vf::Sub> subs;
    subs.push_back(vf::make_sub<Case>("pass", genCase, run));
    return vf::engine_main(argc, argv, "C11_refine", subs);
}
