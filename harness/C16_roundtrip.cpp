// C16 — mesh files written by the simulator are read back as the same tissue; declared counts match contents.
#include <unistd.h>

#include "common/celltools.hpp"
#include "common/engine.hpp"
#include "common/meshgen.hpp"
#include "common/vtkparse.hpp"

#include "local_mesh_refiner.hpp"
#include "mesh_reader.hpp"
#include "mesh_writer.hpp"

using namespace vg;
#ifndef TINY_EXTRA
#define TINY_EXTRA -1e-310
#endif

struct CellSpec {
    int cls = 0;
    short type_id = 0;
    TriMesh mesh;
    int ops = 0;       // number of real refinement operations leaving free slots
    unsigned opseed = 0;
};
struct Case {
    std::vector<CellSpec> cells;
    int path = 0;  // 0 write_cell_data_file(path, cells)  1 mesh_writer::write (cell + face file)  2 vector<mesh> overload
    void write(vf::Writer& w) const {
        w.i(path);
        w.u(cells.size());
        w.nl();
        for (auto& c : cells) {
            w.i(c.cls), w.i(c.type_id), w.i(c.ops), w.u(c.opseed);
            w.nl();
            mg::write_mesh(w, c.mesh);
        }
    }
    static Case read(vf::Reader& r) {
        Case k;
        k.path = (int)r.i();
        size_t n = r.u();
        for (size_t i = 0; i < n; i++) {
            CellSpec c;
            c.cls = (int)r.i(), c.type_id = (short)r.i(), c.ops = (int)r.i(), c.opseed = (unsigned)r.u();
            c.mesh = mg::read_mesh(r);
            k.cells.push_back(c);
        }
        return k;
    }
};

static rc::Gen<Case> genCase() {
    using namespace vf;
    return rc::gen::exec([]() {
        Case k;
        k.path = *irange(0, 2);
        if (*irange(0, 119) == 0) {
            // "any number of cells, any mesh sizes": a tissue of more than 2^16 faces in one file (13-14 cells of 5120 faces, or one cell of
            // 81920), beyond every 16-bit counter and every buffer sized for the small tissues above
            const int big = *irange(0, 2);
            const int nb = big == 0 ? 1 : big == 1 ? 13 : 14;
            TriMesh base = mg::icosphere(big == 0 ? 6 : 5);
            for (int i = 0; i < nb; i++) {
                CellSpec c;
                c.cls = *irange(0, 4);
                c.type_id = (short)*rc::gen::element(0, 1, 2, 3, 4);
                c.mesh = base;
                const double sx = *uniform(0.8, 1.3), sy = *uniform(0.8, 1.3);
                for (size_t j = 0; j < c.mesh.nn(); j++) c.mesh.xyz[3 * j] = c.mesh.xyz[3 * j] * sx + 3.0 * i, c.mesh.xyz[3 * j + 1] *= sy;
                k.cells.push_back(c);
            }
            return k;
        }
        int nc = *irange(1, 8);
        for (int i = 0; i < nc; i++) {
            CellSpec c;
            c.cls = *irange(0, 4);
            c.type_id = (short)*rc::gen::element(0, 1, 2, 3, 4, 7, 12);
            mg::ShapeSpec s = *mg::genShape(*rc::gen::element(0, 1, 1, 2));
            TriMesh m = mg::build_shape(s);
            // coordinate magnitude / sign classes, including exact zeros and negative zeros
            const double scale = *rc::gen::element(1.0, 1e-9, 1e-6, 1e-3, 37.0, 1e6);
            const int off_class = *irange(0, 4);
            const unsigned tiny_pick = (unsigned)*irange(0, 8);
            double off[3];
            for (double& v : off) v = off_class == 0 ? 0 : *uniform(-1, 1) * (off_class == 1 ? 3 : off_class == 2 ? 100 : off_class == 3 ? 1e4 : 1) * scale;
            for (size_t j = 0; j < m.nn(); j++)
                for (int q = 0; q < 3; q++) {
                    double v = m.xyz[3 * j + q] * scale + off[q];
                    // nodes on a coordinate plane: exact zeros of both signs, and the tiny values of either sign that rounding leaves
                    // there (three-digit exponents in the %.4e rendering)
                    static const double TINY[] = {0.0, -0.0, 2.5e-101, -2.5e-101, -7.25e-200, 3.0e-17, -3.0e-17, -1.2345e-99, TINY_EXTRA};
                    if (off_class == 4 && std::fabs(m.xyz[3 * j + q]) < 1e-12) v = TINY[(j * 3 + q + tiny_pick) % (sizeof(TINY) / sizeof(TINY[0]))];
                    m.xyz[3 * j + q] = v;
                }
            c.mesh = m;
            c.ops = *rc::gen::element(0, 0, 1, 3, 8);
            c.opseed = (unsigned)*irange(0, 1 << 20);
            k.cells.push_back(c);
        }
        return k;
    });
}

static std::string tmpdir() {
    static std::string d;
    if (d.empty()) {
        const char* base = getenv("VERIF_TMP");
        d = std::string(base ? base : "/tmp") + "/c16_" + std::to_string(getpid());
        std::filesystem::create_directories(d);
    }
    return d;
}

static double written_value(double x) {  // what "%.4e" keeps of x
    char b[64];
    snprintf(b, sizeof b, "%.4e", x);
    return strtod(b, nullptr);
}

static std::string run(const Case& k, vf::Ctx& ctx) {
    ct::CellScope scope;
    {
        size_t nf = 0;
        for (auto& c : k.cells) nf += c.mesh.nt();
        if (nf > 65536) ctx.count("tissue_of_more_than_65536_faces");
    }
    std::vector<cell_ptr> cells;
    bool any_compaction = false;
    std::set<int> classes;
    for (size_t i = 0; i < k.cells.size(); i++) {
        const CellSpec& cs = k.cells[i];
        // the cell type objects live as long as the process and are re-parameterised from case to case (as a parameter screening through the
        // bindings does): nothing the writer remembers about an earlier tissue may leak into this one
        static std::vector<std::shared_ptr<cell_type_parameters>> type_pool;
        if (type_pool.empty())
            for (int q = 0; q < 16; q++) type_pool.push_back(ct::default_cell_type(2));
        auto type = type_pool[i % type_pool.size()];
        type->global_type_id_ = cs.type_id;
        cell_ptr c;
        try {
            c = ct::make_cell_of_class(cs.cls, cs.mesh, (unsigned)i, type);
        } catch (const std::exception& e) {
            return std::string("cell rejects generated mesh: ") + e.what();
        }
        scope.add(c);
        classes.insert(cs.cls);
        // real refinement operations leave unused slots which the writer must compact
        if (cs.ops > 0 && c->get_nb_of_faces() >= 12) {
            local_mesh_refiner lmr(1.0, 3.0, true);
            uint64_t s = cs.opseed;
            for (int o = 0; o < cs.ops; o++) {
                std::vector<edge> es(c->get_edge_set().begin(), c->get_edge_set().end());
                s = s * 6364136223846793005ull + 1442695040888963407ull;
                edge e = es[(size_t)((s >> 33) % es.size())];
                edge_set scratch;
                try {
                    if ((s >> 20) & 1) {
                        if (lmr.can_be_merged(e, c) && c->get_nb_of_faces() >= 12) lmr.merge_edge(e, c, scratch);
                    } else lmr.split_edge(e, c, scratch);
                } catch (const std::exception&) {
                }
            }
            if (!cell_tester::free_nodes(*c).empty() || !cell_tester::free_faces(*c).empty()) any_compaction = true;
        }
        cells.push_back(c);
    }
    const std::string cell_path = tmpdir() + "/cells.vtk", face_path = tmpdir() + "/faces.vtk";
    std::remove(cell_path.c_str());
    std::remove(face_path.c_str());
    // An earlier tissue written by the same process with the same cell type objects parameterised differently (what a parameter screening
    // does) must leave no trace in this file: the case carries that bit of history itself, so that a replay reproduces it.
    if (k.path == 1 && !cells.empty()) {
        std::vector<short> real;
        for (auto& c : cells) real.push_back(c->get_cell_type()->global_type_id_);
        for (auto& c : cells) c->get_cell_type()->global_type_id_ = (short)((c->get_cell_type()->global_type_id_ + 5) % 13);
        try {
            std::vector<cell_ptr> first(1, ct::make_cell_of_class(0, mg::tetrahedron(), 999, cells[0]->get_cell_type()));
            scope.add(first);
            for (size_t i = 1; i < cells.size() && i < 8; i++) {
                first.push_back(ct::make_cell_of_class(0, mg::tetrahedron(), 999, cells[i]->get_cell_type()));
                scope.add(first.back());
            }
            mesh_writer::write(tmpdir() + "/earlier_cells.vtk", tmpdir() + "/earlier_faces.vtk", first);
        } catch (const std::exception&) {
        }
        for (size_t i = 0; i < cells.size(); i++) cells[i]->get_cell_type()->global_type_id_ = k.cells[i].type_id;
        (void)real;
    }
    // expected content: what the cells look like after the documented compaction
    std::vector<TriMesh> expect;
    try {
        if (k.path == 0) mesh_writer::write_cell_data_file(cell_path, cells);
        else if (k.path == 1) mesh_writer::write(cell_path, face_path, cells);
        else {
            std::vector<mesh> ml;
            for (auto& c : cells) {
                c->rebase();
                ml.push_back(c->get_mesh());
            }
            mesh_writer::write_cell_data_file(cell_path, ml);
        }
    } catch (const std::exception& e) {
        return std::string("writer threw on a valid population: ") + e.what();
    }
    for (auto& c : cells) {
        ct::TopoOpts to;  // arbitrary collapses above may fold the surface: only the combinatorial clauses apply here
        to.check_positive_volume = false;
        to.check_cached_normals = false;
        std::string t = ct::topo_check(*c, to);
        if (!t.empty()) return "cell invalid after the writer compacted it: " + t;
        if (!cell_tester::free_nodes(*c).empty() || !cell_tester::free_faces(*c).empty()) return "writer left unused slots in a cell";
        expect.push_back(ct::snapshot(*c));
    }
    std::ostringstream os;
    os << std::setprecision(17);
    // ---- strict structural check of the written file(s)
    vtkp::File vf = vtkp::parse(cell_path);
    if (!vf.error.empty()) return "cell-data file is not well-formed: " + vf.error;
    if (vf.cells.size() != cells.size()) {
        os << "cell-data file declares " << vf.cells.size() << " polyhedra for " << cells.size() << " cells";
        return os.str();
    }
    if (k.path == 1) {
        vtkp::File ff = vtkp::parse(face_path);
        if (!ff.error.empty()) return "face-data file is not well-formed: " + ff.error;
        size_t nf = 0, nn = 0;
        for (auto& e : expect) nf += e.nt(), nn += e.nn();
        if (ff.tris.size() != nf || ff.points.size() != 3 * nn) return "face-data file does not hold every face / node of the tissue";
        if (vf.cell_fields.empty()) return "cell-data file has no data arrays";
    }
    // ---- read back through the simulator's reader
    std::vector<mesh> got;
    std::vector<short> types;
    try {
        mesh_reader rd(cell_path, false);
        got = rd.read();
        if (k.path == 1) types = rd.get_cell_types();
    } catch (const std::exception& e) {
        return std::string("the simulator's reader rejects a file the simulator wrote: ") + e.what();
    }
    if (got.size() != cells.size()) {
        os << "read back " << got.size() << " cells, wrote " << cells.size();
        return os.str();
    }
    if (k.path == 1) {
        if (types.size() != cells.size()) {
            os << "read back " << types.size() << " cell types for " << cells.size() << " cells";
            return os.str();
        }
        for (size_t i = 0; i < cells.size(); i++)
            if (types[i] != k.cells[i].type_id) {
                os << "cell " << i << " written with type " << k.cells[i].type_id << " read back as " << types[i];
                return os.str();
            }
    }
    for (size_t i = 0; i < cells.size(); i++) {
        const TriMesh& e = expect[i];
        const mesh& g = got[i];
        if (g.node_pos_lst.size() != e.xyz.size()) {
            os << "cell " << i << ": " << e.nn() << " nodes written, " << g.node_pos_lst.size() / 3 << " read back";
            return os.str();
        }
        if (g.face_point_ids.size() != e.nt()) {
            os << "cell " << i << ": " << e.nt() << " triangles written, " << g.face_point_ids.size() << " read back";
            return os.str();
        }
        for (size_t t = 0; t < e.nt(); t++) {
            const auto& f = g.face_point_ids[t];
            if (f.size() != 3 || f[0] != e.tri[3 * t] || f[1] != e.tri[3 * t + 1] || f[2] != e.tri[3 * t + 2]) {
                os << "cell " << i << " triangle " << t << ": written (" << e.tri[3 * t] << "," << e.tri[3 * t + 1] << "," << e.tri[3 * t + 2] << ") read back ";
                for (unsigned v : f) os << v << " ";
                return os.str();
            }
        }
        for (size_t j = 0; j < e.xyz.size(); j++) {
            const double want = written_value(e.xyz[j]);
            if (g.node_pos_lst[j] != want && !(g.node_pos_lst[j] == 0 && want == 0)) {
                os << "cell " << i << " coordinate " << j << ": " << e.xyz[j] << " written as " << want << " but read back as " << g.node_pos_lst[j];
                return os.str();
            }
        }
    }
    ctx.count(k.path == 0 ? "path_write_cell_data_file" : k.path == 1 ? "path_write_both_files" : "path_mesh_overload");
    if (any_compaction) ctx.count("with_compaction");
    if (classes.size() >= 2 && any_compaction) {
        ctx.nontriv();
        std::ostringstream s2;
        size_t nt = 0;
        for (auto& e : expect) nt += e.nt();
        s2 << cells.size() << " cells, " << classes.size() << " classes, " << nt << " triangles, path " << k.path << ", first coord " << expect[0].xyz[0];
        ctx.sample(s2.str());
    }
    return "";
}

int main(int argc, char** argv) {
    std::vector<vf::Sub> subs;
    subs.push_back(vf::make_sub<Case>("roundtrip", genCase, run));
    int rc = vf::engine_main(argc, argv, "C16_roundtrip", subs);
    std::error_code ec;
    std::filesystem::remove_all(tmpdir(), ec);
    return rc;
}
