// C18 — every XML parameter reaches the simulation with its value and meaning intact.
// Sub "readback": generated parameter files (distinct values, random notation / tag order / comments) are parsed by the
// real reader and every field is compared bit-exactly with strtod(text written); omitted tags and sign violations must throw.
#include <unistd.h>

#include "common/engine.hpp"
#include "common/xmlgen.hpp"

#include "parameter_reader.hpp"

struct Case {
    xg::ParamFile pf;
    unsigned deco = 0;
    int mut = 0;          // 0 none, 1 omit a tag, 2 sign/constraint violation, 3 boundary value
    int section = 0;      // 0 numerical, 1 cell type, 2 face type
    unsigned ci = 0, fi = 0, ti = 0;
    static void wtags(vf::Writer& w, const xg::Tags& t) {
        w.u(t.size());
        for (auto& kv : t) w.s(kv.first), w.s(kv.second);
        w.nl();
    }
    static xg::Tags rtags(vf::Reader& r) {
        xg::Tags t;
        size_t n = r.u();
        for (size_t i = 0; i < n; i++) {
            std::string a = r.s(), b = r.s();
            t.push_back({a, b});
        }
        return t;
    }
    void write(vf::Writer& w) const {
        w.u(deco), w.i(mut), w.i(section), w.u(ci), w.u(fi), w.u(ti);
        w.nl();
        wtags(w, pf.numerical);
        w.u(pf.cell_types.size());
        w.nl();
        for (auto& c : pf.cell_types) {
            wtags(w, c.tags);
            w.u(c.faces.size());
            w.nl();
            for (auto& f : c.faces) wtags(w, f.tags);
        }
    }
    static Case read(vf::Reader& r) {
        Case k;
        k.deco = (unsigned)r.u(), k.mut = (int)r.i(), k.section = (int)r.i(), k.ci = (unsigned)r.u(), k.fi = (unsigned)r.u(), k.ti = (unsigned)r.u();
        k.pf.numerical = rtags(r);
        size_t nc = r.u();
        for (size_t i = 0; i < nc; i++) {
            xg::CellTypeX c;
            c.tags = rtags(r);
            size_t nf = r.u();
            for (size_t j = 0; j < nf; j++) {
                xg::FaceTypeX f;
                f.tags = rtags(r);
                c.faces.push_back(f);
            }
            k.pf.cell_types.push_back(c);
        }
        return k;
    }
};

static rc::Gen<std::string> genNumber(bool positive) {
    using namespace vf;
    return rc::gen::exec([=]() {
        double mag = *loguniform(1e-12, 1e12);
        { int ex = *irange(0, 29); if (ex == 0) mag = 3.1e-310; else if (ex == 1) mag = 2.5e300; else if (ex == 2) mag = 4.4e-200; }
        double v = (!positive && *irange(0, 2) == 0) ? -mag : mag;
        char b[80];
        switch (*irange(0, 5)) {
            case 0: snprintf(b, sizeof b, "%.17g", v); break;
            case 1: snprintf(b, sizeof b, "%e", v); break;
            case 2: snprintf(b, sizeof b, "%g", v); break;
            case 3: snprintf(b, sizeof b, "%.3E", v); break;
            case 4: snprintf(b, sizeof b, "%s%.6e", v > 0 ? "+" : "", v); break;
            default: snprintf(b, sizeof b, mag >= 1e-6 ? "%.10f" : "%.17g", v); break;  // fixed notation must not round to 0
        }
        return std::string(b);
    });
}

static void shuffle_tags(xg::Tags& t, unsigned key) {
    for (size_t i = t.size(); i > 1; i--) {
        key = key * 1664525u + 1013904223u;
        std::swap(t[i - 1], t[(key >> 8) % i]);
    }
}

static rc::Gen<Case> genCase() {
    using namespace vf;
    return rc::gen::exec([]() {
        Case k;
        k.deco = (unsigned)*irange(0, 1 << 20);
        const bool shuffle = *irange(0, 3) != 0;
        xg::ParamFile& p = k.pf;
        std::string dt = *genNumber(true);
        // S >= dt by construction: S = dt * factor rendered as a number >= dt
        double dtv = strtod(dt.c_str(), nullptr);
        char sb[64];
        snprintf(sb, sizeof sb, "%.17g", dtv * (*rc::gen::element(1.0, 1.5, 2.0, 3.3333, 10.0, 1000.0)));
        p.numerical = {{"input_mesh_file_path", "some/dir/mesh_" + std::to_string(*irange(0, 999)) + ".vtk"},
                       {"output_mesh_folder_path", "/abs/out_" + std::to_string(*irange(0, 999))},
                       {"damping_coefficient", *genNumber(true)},
                       {"perform_initial_triangulation", *rc::gen::element<std::string>("0", "1", "2", "-1")},
                       {"simulation_duration", *genNumber(true)},
                       {"time_step", dt},
                       {"sampling_period", sb},
                       {"min_edge_length", *genNumber(true)},
                       {"contact_cutoff_adhesion", *genNumber(true)},
                       {"contact_cutoff_repulsion", *genNumber(true)},
                       {"enable_edge_swap_operation", *rc::gen::element<std::string>("0", "1", "5")}};
        if (shuffle) shuffle_tags(p.numerical, k.deco + 1);
        int nc = *irange(1, 5);
        for (int ci = 0; ci < nc; ci++) {
            xg::CellTypeX c;
            c.tags = {{"cell_type_name", "type" + std::to_string(*irange(0, 9999)) + "_" + std::to_string(ci)},
                      {"global_cell_id", std::to_string(*irange(-3, 300))},
                      {"cell_mass_density", *genNumber(false)},
                      {"cell_bulk_modulus", *genNumber(false)},
                      {"max_inner_pressure", *rc::gen::oneOf(rc::gen::element<std::string>("INF", "inf", "Inf"), genNumber(false))},
                      {"area_elasticity_modulus", *genNumber(false)},
                      {"avg_division_volume", *rc::gen::oneOf(rc::gen::element<std::string>("INF", "inf", "Inf"), genNumber(false))},
                      {"std_division_volume", *genNumber(true)},
                      {"avg_growth_rate", *genNumber(false)},
                      {"std_growth_rate", *genNumber(true)},
                      {"target_isoperimetric_ratio", *genNumber(true)},
                      {"angle_regularization_factor", *genNumber(false)},
                      {"min_vol", *genNumber(false)},
                      {"surface_coupling_max_curvature", *genNumber(false)}};
            if (shuffle) shuffle_tags(c.tags, k.deco + 17 * ci);
            int nf = *irange(1, 4);
            for (int fi = 0; fi < nf; fi++) {
                xg::FaceTypeX f;
                f.tags = {{"face_type_name", "face" + std::to_string(*irange(0, 9999)) + "_" + std::to_string(fi)},
                          {"global_face_id", std::to_string(*irange(0, 30000))},
                          {"surface_tension", *genNumber(true)},
                          {"adherence_strength", *genNumber(true)},
                          {"repulsion_strength", *genNumber(true)},
                          {"bending_modulus", *genNumber(true)}};
                if (shuffle) shuffle_tags(f.tags, k.deco + 131 * ci + 7 * fi);
                c.faces.push_back(f);
            }
            // sections may come before or after the face types in real files; the generator keeps face_types last
            p.cell_types.push_back(c);
        }
        k.mut = *rc::gen::weightedElement<int>({{5, 0}, {3, 1}, {3, 2}, {2, 3}});
        k.section = *irange(0, 2);
        k.ci = (unsigned)*irange(0, nc - 1);
        k.fi = (unsigned)*irange(0, 3);
        k.ti = (unsigned)*irange(0, 40);
        return k;
    });
}

static std::string tmpfile_path() {
    static std::string p;
    if (p.empty()) {
        const char* base = getenv("VERIF_TMP");
        p = std::string(base ? base : "/tmp") + "/c18_" + std::to_string(getpid()) + ".xml";
    }
    return p;
}

struct Parsed {
    bool threw = false;
    std::string what, type;
    global_simulation_parameters sp;
    std::vector<std::shared_ptr<cell_type_parameters>> types;
};
static Parsed parse(const xg::ParamFile& pf, unsigned deco) {
    Parsed r;
    {
        std::ofstream o(tmpfile_path());
        o << xg::render(pf, deco);
    }
    try {
        parameter_reader rd(tmpfile_path());
        r.sp = rd.read_numerical_parameters();
        r.types = rd.read_biomechanical_parameters();
    } catch (const std::exception& e) {
        r.threw = true;
        r.what = e.what();
        r.type = typeid(e).name();
    }
    return r;
}

static bool is_inf_text(std::string s) {
    for (auto& c : s) c = (char)tolower(c);
    return s == "inf";
}
static double num(const std::string& s) { return strtod(s.c_str(), nullptr); }

static std::string run(const Case& k, vf::Ctx& ctx) {
    xg::ParamFile pf = k.pf;
    std::ostringstream os;
    os << std::setprecision(17);
    // ------------------------------------------------ mutations that must be rejected
    if (k.mut == 1) {  // omit one tag
        xg::Tags* t = k.section == 0 ? &pf.numerical : k.section == 1 ? &pf.cell_types[k.ci].tags : &pf.cell_types[k.ci].faces[k.fi % pf.cell_types[k.ci].faces.size()].tags;
        const std::string name = (*t)[k.ti % t->size()].first;
        xg::erase(*t, name);
        Parsed r = parse(pf, k.deco);
        if (!r.threw) return "parameter file without the tag <" + name + "> was accepted";
        ctx.count("omitted_tag_rejected");
        ctx.nontriv();
        ctx.sample("omit <" + name + "> -> " + r.what.substr(0, 80));
        return "";
    }
    struct Con {
        int section;
        const char* tag;
        bool strict;  // true: must be > 0, false: must be >= 0
    };
    static const Con cons[] = {{0, "simulation_duration", true}, {0, "time_step", true}, {0, "sampling_period", true}, {0, "min_edge_length", true},
                               {0, "contact_cutoff_adhesion", true}, {0, "contact_cutoff_repulsion", true}, {0, "damping_coefficient", false},
                               {1, "target_isoperimetric_ratio", true}, {1, "std_growth_rate", false}, {1, "std_division_volume", false}, {2, "surface_tension", false}, {2, "adherence_strength", false},
                               {2, "repulsion_strength", false}, {2, "bending_modulus", false}, {2, "global_face_id", false}};
    if (k.mut == 2 || k.mut == 3) {
        const Con& c = cons[k.ti % (sizeof cons / sizeof cons[0])];
        xg::Tags* t = c.section == 0 ? &pf.numerical : c.section == 1 ? &pf.cell_types[k.ci].tags : &pf.cell_types[k.ci].faces[k.fi % pf.cell_types[k.ci].faces.size()].tags;
        std::string* v = xg::find(*t, c.tag);
        if (k.mut == 2) {
            if (std::string(c.tag) == "global_face_id") *v = "-" + std::to_string(1 + k.deco % 50);
            else *v = "-" + *v + (v->find('+') == 0 ? "" : "");
            if ((*v)[1] == '+') v->erase(1, 1);
            // special constraint: sampling period smaller than the time step
            if (std::string(c.tag) == "sampling_period" && (k.deco & 1)) {
                char b[64];
                snprintf(b, sizeof b, "%.17g", num(*xg::find(pf.numerical, "time_step")) * 0.5);
                *v = b;
            }
            Parsed r = parse(pf, k.deco);
            if (!r.threw) return std::string("value ") + *v + " for <" + c.tag + "> violates its documented constraint but was accepted";
            ctx.count("sign_violation_rejected");
            ctx.nontriv();
            ctx.sample(std::string("<") + c.tag + ">" + *v + " -> " + r.what.substr(0, 80));
            return "";
        }
        // boundary value 0: rejected for "strictly positive", accepted for "not negative"; damping = 0 is not judged
        if (std::string(c.tag) == "damping_coefficient") return "";
        if (std::string(c.tag) == "sampling_period") {
            *v = *xg::find(pf.numerical, "time_step");  // S == dt is admissible
            Parsed r = parse(pf, k.deco);
            if (r.threw) return "sampling_period equal to time_step was rejected: " + r.what;
            ctx.count("boundary_S_equals_dt_accepted");
            return "";
        }
        if (std::string(c.tag) == "time_step") return "";  // dt = 0 would also violate S >= dt ordering checks; covered by mut 2
        *v = (k.deco & 1) ? "0" : "0.0";
        if (std::string(c.tag) == "global_face_id") *v = "0";
        Parsed r = parse(pf, k.deco);
        if (c.strict && !r.threw) return std::string("<") + c.tag + "> = 0 accepted although it must be strictly positive";
        if (!c.strict && r.threw) return std::string("<") + c.tag + "> = 0 rejected although only negative values are excluded: " + r.what;
        ctx.count(c.strict ? "boundary_zero_rejected" : "boundary_zero_accepted");
        return "";
    }
    // ------------------------------------------------ faithful read-back
    Parsed r = parse(pf, k.deco);
    if (r.threw) return "admissible parameter file rejected: " + r.what;
    auto chk = [&](const char* tag, double got, const xg::Tags& t, bool inf_allowed = false) -> std::string {
        const std::string* s = xg::find(t, tag);
        double want = (inf_allowed && is_inf_text(*s)) ? std::numeric_limits<double>::infinity() : num(*s);
        if (!(got == want)) {
            std::ostringstream o;
            o << std::setprecision(17) << "<" << tag << ">" << *s << " arrived as " << got;
            return o.str();
        }
        return "";
    };
    std::string m;
    const xg::Tags& N = pf.numerical;
    if (!(m = chk("damping_coefficient", r.sp.damping_coefficient_, N)).empty()) return m;
    if (!(m = chk("simulation_duration", r.sp.simulation_duration_, N)).empty()) return m;
    if (!(m = chk("time_step", r.sp.time_step_, N)).empty()) return m;
    if (!(m = chk("sampling_period", r.sp.sampling_period_, N)).empty()) return m;
    if (!(m = chk("min_edge_length", r.sp.min_edge_len_, N)).empty()) return m;
    if (!(m = chk("contact_cutoff_adhesion", r.sp.contact_cutoff_adhesion_, N)).empty()) return m;
    if (!(m = chk("contact_cutoff_repulsion", r.sp.contact_cutoff_repulsion_, N)).empty()) return m;
    if (r.sp.input_mesh_path_ != *xg::find(N, "input_mesh_file_path")) return "input_mesh_file_path arrived as " + r.sp.input_mesh_path_;
    if (r.sp.output_folder_path_ != *xg::find(N, "output_mesh_folder_path")) return "output_mesh_folder_path arrived as " + r.sp.output_folder_path_;
    if (r.sp.perform_initial_triangulation_ != (atoi(xg::find(N, "perform_initial_triangulation")->c_str()) != 0)) return "perform_initial_triangulation flag wrong";
    if (r.sp.enable_edge_swap_operation_ != (atoi(xg::find(N, "enable_edge_swap_operation")->c_str()) != 0)) return "enable_edge_swap_operation flag wrong";
    if (r.types.size() != pf.cell_types.size()) {
        os << r.types.size() << " cell types read, " << pf.cell_types.size() << " written";
        return os.str();
    }
    bool any_inf = false;
    for (size_t ci = 0; ci < pf.cell_types.size(); ci++) {
        const xg::Tags& T = pf.cell_types[ci].tags;
        const cell_type_parameters& c = *r.types[ci];
        if (c.name_ != *xg::find(T, "cell_type_name")) {
            os << "cell type " << ci << " is '" << c.name_ << "' but the file has '" << *xg::find(T, "cell_type_name") << "' at that position (order not preserved)";
            return os.str();
        }
        if (c.global_type_id_ != (short)atoi(xg::find(T, "global_cell_id")->c_str())) return "global_cell_id of " + c.name_ + " wrong";
        if (!(m = chk("cell_mass_density", c.mass_density_, T)).empty()) return c.name_ + ": " + m;
        if (!(m = chk("cell_bulk_modulus", c.bulk_modulus_, T)).empty()) return c.name_ + ": " + m;
        if (!(m = chk("max_inner_pressure", c.max_pressure_, T, true)).empty()) return c.name_ + ": " + m;
        if (!(m = chk("area_elasticity_modulus", c.area_elasticity_modulus_, T)).empty()) return c.name_ + ": " + m;
        if (!(m = chk("avg_division_volume", c.avg_division_vol_, T, true)).empty()) return c.name_ + ": " + m;
        if (!(m = chk("std_division_volume", c.std_division_vol_, T)).empty()) return c.name_ + ": " + m;
        if (!(m = chk("avg_growth_rate", c.avg_growth_rate_, T)).empty()) return c.name_ + ": " + m;
        if (!(m = chk("std_growth_rate", c.std_growth_rate_, T)).empty()) return c.name_ + ": " + m;
        if (!(m = chk("target_isoperimetric_ratio", c.target_isoperimetric_ratio_, T)).empty()) return c.name_ + ": " + m;
        if (!(m = chk("angle_regularization_factor", c.angle_regularization_factor_, T)).empty()) return c.name_ + ": " + m;
        if (!(m = chk("min_vol", c.min_vol_, T)).empty()) return c.name_ + ": " + m;
        if (!(m = chk("surface_coupling_max_curvature", c.surface_coupling_max_curvature_, T)).empty()) return c.name_ + ": " + m;
        any_inf |= std::isinf(c.max_pressure_) || std::isinf(c.avg_division_vol_);
        if (c.face_types_.size() != pf.cell_types[ci].faces.size()) return c.name_ + ": number of face types differs";
        for (size_t fi = 0; fi < c.face_types_.size(); fi++) {
            const xg::Tags& F = pf.cell_types[ci].faces[fi].tags;
            const face_type_parameters& f = c.face_types_[fi];
            if (f.name_ != *xg::find(F, "face_type_name")) return c.name_ + ": face type order not preserved";
            if (f.face_type_global_id_ != (short)atoi(xg::find(F, "global_face_id")->c_str())) return c.name_ + "/" + f.name_ + ": global_face_id wrong";
            if (!(m = chk("surface_tension", f.surface_tension_, F)).empty()) return c.name_ + "/" + f.name_ + ": " + m;
            if (!(m = chk("adherence_strength", f.adherence_strength_, F)).empty()) return c.name_ + "/" + f.name_ + ": " + m;
            if (!(m = chk("repulsion_strength", f.repulsion_strength_, F)).empty()) return c.name_ + "/" + f.name_ + ": " + m;
            if (!(m = chk("bending_modulus", f.bending_modulus_, F)).empty()) return c.name_ + "/" + f.name_ + ": " + m;
        }
    }
    ctx.count("files_read_back");
    if (any_inf) ctx.count("with_INF");
    if (pf.cell_types.size() >= 2 && any_inf) {
        ctx.nontriv();
        std::ostringstream s2;
        s2 << pf.cell_types.size() << " cell types, dt=" << *xg::find(N, "time_step") << " S=" << *xg::find(N, "sampling_period") << " first tags: " << N[0].first << "," << N[1].first;
        ctx.sample(s2.str());
    }
    return "";
}

int main(int argc, char** argv) {
    std::vector<vf::Sub> subs;
    subs.push_back(vf::make_sub<Case>("readback", genCase, run));
    int rc = vf::engine_main(argc, argv, "C18_params", subs);
    std::remove(tmpfile_path().c_str());
    return rc;
}
