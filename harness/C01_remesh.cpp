// C01 — cell surfaces stay closed, consistently oriented 2-manifolds under remeshing.
// Stateful property: a generated history of node displacements, refinement passes, single split / merge / swap
// operations and compactions is applied to one live cell; the independent topological oracle (celltools.hpp)
// runs after every command.
#include "common/celltools.hpp"
#include "common/engine.hpp"
#include "common/meshgen.hpp"

#include "local_mesh_refiner.hpp"

using namespace vg;

enum OpKind { DISPLACE = 0, UPDATE_NORMALS, REFINE, SPLIT, MERGE, SWAP, REBASE, FORCE_STEP, NKINDS };
static const char* OPN[] = {"displace", "update_normals", "refine", "split", "merge", "swap", "rebase", "force_step"};

struct Op {
    int kind = 0;
    unsigned a = 0;       // edge index / field kind / flags
    double x = 0, y = 0, z = 1, amp = 0;
};

struct Case {
    TriMesh mesh;
    double lmin_factor = 0.5;  // l_min = factor * mean edge length
    std::vector<Op> ops;
    std::string shape;
    void write(vf::Writer& w) const {
        mg::write_mesh(w, mesh);
        w.d(lmin_factor);
        w.s(shape.empty() ? "_" : "shape");
        w.u(ops.size());
        w.nl();
        for (auto& o : ops) {
            w.i(o.kind);
            w.u(o.a);
            w.d(o.x);
            w.d(o.y);
            w.d(o.z);
            w.d(o.amp);
            w.nl();
        }
    }
    static Case read(vf::Reader& r) {
        Case c;
        c.mesh = mg::read_mesh(r);
        c.lmin_factor = r.d();
        r.s();
        size_t n = r.u();
        for (size_t i = 0; i < n; i++) {
            Op o;
            o.kind = (int)r.i();
            o.a = (unsigned)r.u();
            o.x = r.d();
            o.y = r.d();
            o.z = r.d();
            o.amp = r.d();
            c.ops.push_back(o);
        }
        return c;
    }
};

static rc::Gen<Op> genOp() {
    using namespace vf;
    return rc::gen::exec([]() {
        Op o;
        // weights: displacement and refine passes dominate, single ops interleave
        o.kind = *rc::gen::weightedElement<int>({{5, DISPLACE}, {1, UPDATE_NORMALS}, {5, REFINE}, {3, SPLIT}, {3, MERGE},
                                                  {3, SWAP}, {2, REBASE}, {2, FORCE_STEP}});
        o.a = (unsigned)*irange(0, 1 << 20);
        o.x = *uniform(-1, 1);
        o.y = *uniform(-1, 1);
        o.z = *uniform(-1, 1);
        o.amp = *rc::gen::oneOf(uniform(0.0, 0.4), uniform(0.0, 1.5));
        return o;
    });
}

static rc::Gen<Case> genCase() {
    using namespace vf;
    return rc::gen::exec([]() {
        Case c;
        mg::ShapeSpec s = *mg::genShape(2);
        if (s.family <= 2 && s.refine.size() < 3) s.family = 3, s.param = *irange(0, 2);  // tiny solids are mostly degenerate here
        mg::Placement pl = *mg::genPlacement(true);
        TriMesh base = mg::build_shape(s);
        c.shape = s.describe();
        if (*irange(0, 3) == 0) {
            // hub with lobes glued on its faces: cycles of three edges that bound no face (waists), next to each other when two
            // lobes sit on a tetrahedral hub
            mg::ShapeSpec h;
            h.family = *rc::gen::element(0, 0, 0, 1, 4);
            h.param = 3;
            h.sx = *uniform(0.6, 1.6), h.sy = *uniform(0.6, 1.6), h.sz = *uniform(0.6, 1.6);
            auto lobes = *mg::genLobes();
            base = mg::with_lobes(mg::build_shape(h), lobes);
            c.shape = "lobed:" + h.describe() + " lobes=" + std::to_string(lobes.size());
        }
        c.mesh = mg::place(base, pl);
        if (*irange(0, 39) == 0 && c.mesh.nn() <= 400) {
            // The cell's bookkeeping identifies an edge by the Cantor pairing of its two node ids. Large or sparsely numbered cells (a small
            // mesh stored in a long point list) have ids up to ~1e5, where the pairing exceeds 2^32: the node ids are scattered over such a list
            // and two node-disjoint edges get ids whose exact pairings differ by exactly 2^32 (inverse pairing), all other ids are random.
            const TriMesh& m = c.mesh;
            auto cantor = [](uint64_t a, uint64_t b) { return (a + b) * (a + b + 1) / 2 + b; };
            unsigned e1a = m.tri[0], e1b = m.tri[1];
            unsigned e2a = 0, e2b = 0;
            bool found = false;
            for (size_t t = 1; t < m.nt() && !found; t++)
                for (int j = 0; j < 3 && !found; j++) {
                    unsigned u = m.tri[3 * t + j], v = m.tri[3 * t + (j + 1) % 3];
                    if (u != e1a && u != e1b && v != e1a && v != e1b) e2a = u, e2b = v, found = true;
                }
            if (found) {
                uint64_t x = (uint64_t)*irange(0, 3000), y = x + 1 + (uint64_t)*irange(0, 3000), a = 0, b = 0;
                for (uint64_t kk = 1; kk <= 3; kk++) {
                    const uint64_t z = cantor(x, y) + (kk << 32);
                    uint64_t w = (uint64_t)((std::sqrt(8.0L * (long double)z + 1) - 1) / 2);
                    while (w * (w + 1) / 2 > z) w--;
                    while ((w + 1) * (w + 2) / 2 <= z) w++;
                    b = z - w * (w + 1) / 2, a = w - b;
                    if (a < b && a != x && a != y && b != x && b != y) break;
                    a = b = 0;
                }
                if (b != 0) {
                    std::vector<uint64_t> id(m.nn(), UINT64_MAX);
                    std::set<uint64_t> used = {x, y, a, b};
                    id[e1a] = x, id[e1b] = y, id[e2a] = a, id[e2b] = b;
                    const uint64_t top = std::max(b, y) + 40;
                    for (size_t i = 0; i < m.nn(); i++) {
                        if (id[i] != UINT64_MAX) continue;
                        uint64_t r;
                        do r = (uint64_t)*irange(0, (int)top);
                        while (used.count(r));
                        used.insert(r), id[i] = r;
                    }
                    TriMesh big;
                    big.xyz.resize(3 * (top + 1));
                    for (uint64_t i = 0; i <= top; i++)
                        for (int q = 0; q < 3; q++) big.xyz[3 * i + q] = m.xyz[q];  // unused points sit on a used one
                    for (size_t i = 0; i < m.nn(); i++)
                        for (int q = 0; q < 3; q++) big.xyz[3 * id[i] + q] = m.xyz[3 * i + q];
                    for (unsigned v : m.tri) big.tri.push_back((unsigned)id[v]);
                    c.mesh = big;
                    c.shape = "sparse-ids(" + std::to_string(top + 1) + " slots):" + c.shape;
                }
            }
        }
        c.lmin_factor = *rc::gen::element(0.2, 0.3, 0.4, 0.5, 0.6, 0.8, 0.95);
        c.ops = *rc::gen::container<std::vector<Op>>(genOp());
        return c;
    });
}

static uint64_t splitmix(uint64_t& s) {
    uint64_t z = (s += 0x9e3779b97f4a7c15ull);
    z = (z ^ (z >> 30)) * 0xbf58476d1ce4e5b9ull;
    z = (z ^ (z >> 27)) * 0x94d049bb133111ebull;
    return z ^ (z >> 31);
}
static double u11(uint64_t& s) { return (double)(splitmix(s) >> 11) / (double)(1ull << 53) * 2 - 1; }

static std::vector<edge> sorted_edges(cell& c) {
    std::vector<edge> v(cell_tester::edges(c).begin(), cell_tester::edges(c).end());
    std::sort(v.begin(), v.end(), [](const edge& a, const edge& b) { return std::make_pair(a.n1(), a.n2()) < std::make_pair(b.n1(), b.n2()); });
    return v;
}
static double elen(cell& c, const edge& e) {
    return (cell_tester::nodes(c)[e.n1()].pos() - cell_tester::nodes(c)[e.n2()].pos()).norm();
}

static std::string run(const Case& k, vf::Ctx& ctx) {
    const TriMesh& m0 = k.mesh;
    if (m0.nt() < 4) return "";
    ld mean_edge = 0;
    for (size_t t = 0; t < m0.nt(); t++)
        for (int j = 0; j < 3; j++) mean_edge += (m0.p(m0.tri[3 * t + j]) - m0.p(m0.tri[3 * t + (j + 1) % 3])).norm();
    mean_edge /= (3 * m0.nt());
    const double lmin = (double)(mean_edge * k.lmin_factor), lmax = 3 * lmin;
    auto type = ct::default_cell_type(2);
    type->angle_regularization_factor_ = 0.1;
    type->face_types_[0].bending_modulus_ = 0.;
    std::shared_ptr<epithelial_cell> c;
    try {
        c = ct::make_cell<epithelial_cell>(m0, 0, type);
    } catch (const std::exception& e) {
        return std::string("generator produced a mesh the cell rejects: ") + e.what();
    }
    ct::CellScope scope;
    scope.add(c);
    cell& C = *c;
    {
        std::string s0 = ct::topo_check(C);
        if (!s0.empty()) return "initial state: " + s0;
    }
    local_mesh_refiner lmr_swap(lmin, lmax, true), lmr_noswap(lmin, lmax, false);

    std::set<int> kinds_effective;
    std::set<std::array<unsigned, 3>> created_faces;  // triangles created by earlier commands (sorted ids)
    bool op_on_created = false, rebase_then_op = false, rebased = false, reused_slot = false;
    bool swap_then_split_same = false;
    int step = 0;
    bool normals_fresh = true;  // cached normals correspond to the current node positions on every face
    std::ostringstream hist;
    for (const Op& o : k.ops) {
        step++;
        auto before = ct::live_triangles(C);
        const size_t free_before = cell_tester::free_faces(C).size() + cell_tester::free_nodes(C).size();
        std::set<std::array<unsigned, 3>> before_set;
        for (auto& t : before) {
            std::array<unsigned, 3> s = {t[0], t[1], t[2]};
            std::sort(s.begin(), s.end());
            before_set.insert(s);
        }
        TriMesh snap = ct::snapshot(C);
        V3 ref = vg::vertex_mean(snap);
        // vertex_mean counts dead slots at (0,0,0) too; fine as a reference point for a volume *ratio*
        const ld vol_before = vg::signed_volume(snap, ref);
        bool threw = false;
        std::string what;
        bool touched_created = false;
        try {
            switch (o.kind) {
                case DISPLACE: {
                    // the solver refreshes cached normals (apply_internal_forces) and then moves the nodes
                    C.update_all_face_normals_and_areas();
                    auto& nl = cell_tester::nodes(C);
                    V3 cen;
                    size_t n = 0;
                    for (auto& nd : nl)
                        if (nd.is_used()) cen = cen + ct::to_v3(nd.pos()), n++;
                    cen = cen * ((ld)1 / n);
                    V3 ax(o.x, o.y, o.z);
                    if (ax.norm() < 1e-3) ax = V3(0, 0, 1);
                    ax = ax * (1 / ax.norm());
                    const int field = o.a % 5;
                    uint64_t seed = o.a;
                    const ld center_pick = (o.a / 5) % std::max<size_t>(1, nl.size());
                    V3 cpos = ct::to_v3(nl[(size_t)center_pick].pos());
                    for (auto& nd : nl) {
                        if (!nd.is_used()) continue;
                        V3 p = ct::to_v3(nd.pos()), q = p;
                        V3 r = p - cen;
                        switch (field) {
                            case 0: q = p + V3(u11(seed), u11(seed), u11(seed)) * (o.amp * 0.5 * lmin); break;
                            case 1: q = p + ax * (r.dot(ax) * o.amp); break;                          // stretch
                            case 2: q = p - ax * (r.dot(ax) * (o.amp / (1 + o.amp)) * 0.8); break;    // compress
                            case 3: {                                                                  // local bump
                                ld d2 = (p - cpos).n2(), w = 2.0 * lmax;
                                ld rn = r.norm();
                                if (rn > 0) q = p + r * (1 / rn) * (o.amp * lmin * 2 * expl(-d2 / (w * w)));
                                break;
                            }
                            default: {                                                                 // pinch towards the axis
                                ld h = r.dot(ax), w = 1.5 * lmax;
                                V3 perp = r - ax * h;
                                q = p - perp * (std::min(0.7, o.amp * 0.6) * expl(-h * h / (w * w)));
                            }
                        }
                        cell_tester::pos(nd) = ct::to_vec3(q);
                    }
                    // large moves are followed by the solver-style refresh only one iteration later; emulate the
                    // worst admissible staleness: keep stale normals for small moves, refresh for large ones
                    if (o.amp > 0.5 || field >= 3) C.update_all_face_normals_and_areas();
                    break;
                }
                case UPDATE_NORMALS: C.update_all_face_normals_and_areas(); break;
                case REFINE: ((o.a & 1) ? lmr_swap : lmr_noswap).refine_mesh(c); break;
                case SPLIT: case MERGE: case SWAP: {
                    auto es = sorted_edges(C);
                    if (es.empty()) break;
                    edge e = es[o.a % es.size()];
                    if (o.kind == MERGE) {
                        // a pass only collapses edges shorter than l_min: pick the k-th such edge
                        std::vector<edge> shorts;
                        for (auto& x : es)
                            if (elen(C, x) < lmin) shorts.push_back(x);
                        if (shorts.empty()) break;
                        e = shorts[o.a % shorts.size()];
                        if (!lmr_swap.can_be_merged(e, c)) {
                            ctx.count("merge_refused");
                            break;
                        }
                    }
                    for (unsigned fid : {e.f1(), e.f2()}) {
                        auto ids = cell_tester::face_ids(cell_tester::faces(C)[fid]);
                        std::array<unsigned, 3> s = {ids[0], ids[1], ids[2]};
                        std::sort(s.begin(), s.end());
                        if (created_faces.count(s)) touched_created = true;
                    }
                    edge_set scratch = C.get_edge_set();
                    if (o.kind == SPLIT) lmr_swap.split_edge(e, c, scratch);
                    else if (o.kind == MERGE) lmr_swap.merge_edge(e, c, scratch);
                    else lmr_swap.swap_edge(e, c);
                    break;
                }
                case REBASE: C.rebase(); rebased = true; break;
                case FORCE_STEP: {
                    cell_tester::target_volume(C) = C.get_volume() * 1.2;
                    C.apply_internal_forces(0.);
                    double fmax = 0;
                    for (auto& nd : cell_tester::nodes(C))
                        if (nd.is_used()) fmax = std::max(fmax, nd.force().norm());
                    if (fmax > 0 && std::isfinite(fmax))
                        for (auto& nd : cell_tester::nodes(C))
                            if (nd.is_used()) {
                                cell_tester::pos(nd) = nd.pos() + nd.force() * (0.3 * lmin * std::min(1.0, o.amp) / fmax);
                                cell_tester::force(nd).reset();
                            }
                    break;
                }
            }
        } catch (const mesh_integrity_exception& e) {
            threw = true;
            what = e.what();
        } catch (const std::exception& e) {
            std::ostringstream os;
            os << "step " << step << " (" << OPN[o.kind] << "): unexpected exception " << typeid(e).name() << ": " << e.what();
            return os.str();
        }
        if (threw) {
            // a refinement pass may give up with mesh_integrity_exception (the solver then stops); history ends
            ctx.count(std::string("ended_by_exception_in_") + OPN[o.kind]);
            {
                // "reports failure by exception": the surface the failed command leaves behind must still be the closed manifold
                // the statement talks about (combinatorial clauses and bookkeeping only)
                ct::TopoOpts eo;
                eo.check_cached_normals = false;
                eo.check_positive_volume = false;
                std::string es = ct::topo_check(C, eo);
                ctx.count(es.empty() ? "state_valid_after_exception" : "state_broken_after_exception");
                if (!es.empty()) {
                    std::ostringstream os;
                    os << "step " << step << " (" << OPN[o.kind] << ") gave up with an exception (" << what << ") and left a surface that is no closed manifold: " << es;
                    return os.str();
                }
            }
            if (getenv("VERIF_DEBUG")) fprintf(stderr, "exception in %s: %s\n", OPN[o.kind], what.c_str());
            break;
        }
        auto after = ct::live_triangles(C);
        bool changed = after.size() != before.size();
        std::set<std::array<unsigned, 3>> after_set;
        for (auto& t : after) {
            std::array<unsigned, 3> s = {t[0], t[1], t[2]};
            std::sort(s.begin(), s.end());
            after_set.insert(s);
            if (!before_set.count(s)) {
                changed = true;
                if (o.kind != REBASE) created_faces.insert(s);
            }
        }
        if (o.kind == REBASE) created_faces.clear();  // ids renumbered
        if (changed && o.kind >= REFINE && o.kind <= SWAP) {
            kinds_effective.insert(o.kind);
            ctx.count(std::string("effective_") + OPN[o.kind]);
            if (touched_created) op_on_created = true;
            if (rebased) rebase_then_op = true;
            if (free_before > 0) reused_slot = true;
        }
        ct::TopoOpts opts;
        // Cached normals: the solver refreshes them once per iteration *before* moving the nodes, so at refinement
        // time they may be one displacement old on faces the refiner did not touch.  Every face the command created
        // must carry a normal matching its winding; all faces are checked when the normals were fresh before.
        std::set<unsigned> new_slots;
        for (auto& t : after) {
            std::array<unsigned, 3> s3 = {t[0], t[1], t[2]};
            std::sort(s3.begin(), s3.end());
            if (!before_set.count(s3)) new_slots.insert(t[3]);
        }
        if (o.kind == UPDATE_NORMALS) normals_fresh = true;
        else if (o.kind == DISPLACE) normals_fresh = (o.amp > 0.5 || (o.a % 5) >= 3);
        else if (o.kind == FORCE_STEP) normals_fresh = false;
        opts.check_cached_normals = true;
        if (!normals_fresh) {
            if (o.kind >= REFINE && o.kind <= SWAP) opts.normal_slots = &new_slots;
            else opts.check_cached_normals = false;
        }
        // positive volume only when the cell is much larger than the remeshing length (a cell of the order of
        // l_min legitimately degenerates when its edges are collapsed)
        opts.check_positive_volume = (vol_before >= 20.0 * lmax * lmax * lmax) && o.kind != DISPLACE && o.kind != FORCE_STEP;
        std::string s = ct::topo_check(C, opts);
        if (!s.empty()) {
            std::ostringstream os;
            os << "after step " << step << " (" << OPN[o.kind] << "): " << s;
            return os.str();
        }
        if (opts.check_positive_volume) ctx.count("volume_clause_checked");
        if (C.get_nb_of_faces() < 10) {
            // the cell has been collapsed to (almost) nothing because l_min is of the order of its size: the
            // remaining operations are outside the domain (the solver removes such cells by their volume)
            ctx.count("ended_cell_collapsed_below_10_faces");
            break;
        }
        hist << OPN[o.kind][0] << OPN[o.kind][1];
    }
    const bool nontrivial = kinds_effective.count(SPLIT) + kinds_effective.count(REFINE) > 0 && kinds_effective.count(SWAP) + kinds_effective.count(REFINE) > 0 &&
                            kinds_effective.size() >= 2 && op_on_created;
    if (k.shape.rfind("lobed:", 0) == 0) ctx.count("start_mesh_with_waists");
    if (k.shape.rfind("sparse-ids", 0) == 0) ctx.count("start_mesh_with_node_ids_up_to_1e5");
    if (op_on_created) ctx.count("history_op_on_face_created_earlier");
    if (rebase_then_op) ctx.count("history_op_after_rebase");
    if (reused_slot) ctx.count("history_op_reusing_free_slot");
    if (kinds_effective.count(MERGE)) ctx.count("history_with_direct_merge");
    if (kinds_effective.count(SWAP)) ctx.count("history_with_direct_swap");
    if (nontrivial) {
        ctx.nontriv();
        std::ostringstream os;
        os << k.shape << " tris=" << m0.nt() << " lmin=" << lmin << " ops=" << hist.str();
        ctx.sample(os.str());
    }
    return "";
}

int main(int argc, char** argv) {
    std::vector<vf::Sub> subs;
    subs.push_back(vf::make_sub<Case>("history", genCase, run));
    return vf::engine_main(argc, argv, "C01_remesh", subs);
}
