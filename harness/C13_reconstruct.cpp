// C13 — initial surface reconstruction returns a faithful closed mesh or fails cleanly.
//  sub "reconstruct": polyhedral input file -> simulation_initializer (real reader, coarse triangulation, Poisson sampling,
//                     ball pivoting, retries, final integrity check); outcome = cells or an exception derived from std::exception.
//  sub "poisson":     the sampling alone: pairwise spacing >= l_min and every sample on the input surface.
//  sub "holes":       the hole-filling stage of the ball pivoting driven directly through the bpa_tester friend.
#include <unistd.h>

#include "common/celltools.hpp"
#include "common/engine.hpp"
#include "common/meshgen.hpp"
#include "common/polygen.hpp"

#include "ball_pivoting_algorithm.hpp"
#include "poisson_sampling.hpp"
#include "simulation_initializer.hpp"
#include "verif_hooks.hpp"

using namespace vg;

static uint64_t g_seed_state = 1;
static uint64_t next_seed() {
    g_seed_state = g_seed_state * 6364136223846793005ull + 1442695040888963407ull;
    return g_seed_state >> 20;
}
static std::string scratch() {
    static std::string d;
    if (d.empty()) {
        const char* base = getenv("VERIF_TMP");
        d = std::string(base ? base : "/tmp") + "/c13_" + std::to_string(getpid());
        std::filesystem::create_directories(d);
    }
    return d;
}

struct RCase {
    pg::Poly poly;            // outward wound, convex planar faces
    std::vector<unsigned> flip;  // per face: reverse the winding in the input file
    double lmin_f = 0.15;     // l_min / diameter-ish (bounding diagonal / sqrt 3)
    int triangulate = 1;
    uint64_t seed = 1;
    int kind = 0;
    double feature = 1;       // smallest feature of the shape (arm thickness, height, minor axis ...): the resolution refers to it
    void write(vf::Writer& w) const {
        poly.write(w);
        w.vu(flip);
        w.d(lmin_f), w.i(triangulate), w.u(seed), w.i(kind), w.d(feature);
        w.nl();
    }
    static RCase read(vf::Reader& r) {
        RCase c;
        c.poly = pg::Poly::read(r);
        c.flip = r.vu();
        c.lmin_f = r.d(), c.triangulate = (int)r.i(), c.seed = r.u(), c.kind = (int)r.i();
        c.feature = r.more() ? r.d() : -1;  // older case files: resolution relative to the diameter
        return c;
    }
};
static const char* KIND[] = {"box", "prism", "bipyramid", "icosphere", "ellipsoid", "L-prism", "triangulated-box", "triangulated-prism"};

struct PolyKind {
    pg::Poly poly;
    int kind;
    double feature;
};
static rc::Gen<PolyKind> genPoly(bool force_triangulated) {
    using namespace vf;
    return rc::gen::exec([force_triangulated]() {
        pg::Poly p;
        double feature = 2;
        int kind = *irange(0, 7);
        // 1/4: shapes with sharp or re-entrant edges (triangular prism, 3- and 4-sided bipyramids, L-prism): the ball pivoting leaves several
        // holes to fill there, which smooth shapes never do
        const bool sharp = *irange(0, 3) == 0;
        if (sharp) kind = *rc::gen::element(1, 2, 5);
        if (!sharp && force_triangulated && (kind == 0 || kind == 1 || kind == 5)) kind = kind == 5 ? 3 : 6 + (kind & 1);
        switch (kind) {
            case 0: {
                double a = *uniform(0.6, 1.4), b = *uniform(0.6, 1.4), cc = *uniform(0.6, 1.4);
                p = pg::box(a, b, cc), feature = 2 * std::min(a, std::min(b, cc));
                break;
            }
            case 1: {
                int n = sharp ? 3 : *irange(3, 9);
                double r = *uniform(0.7, 1.3), h = *uniform(0.5, 1.2);
                p = pg::prism(n, r, h), feature = std::min(2 * h, n == 3 ? 1.5 * r : n == 4 ? 1.41 * r : 1.7 * r);
                if (force_triangulated) p = pg::from_trimesh(pg::triangulate(p));
                break;
            }
            case 2: p = pg::from_trimesh(mg::bipyramid(sharp ? *irange(3, 4) : *irange(3, 8))), feature = 1.2; break;
            case 3: p = pg::from_trimesh(mg::icosphere(*irange(0, 2))); break;
            case 4: {
                TriMesh m = mg::icosphere(*irange(1, 2));
                double sx = *uniform(0.6, 1.6), sy = *uniform(0.6, 1.6), sz = *uniform(0.6, 1.6);
                for (size_t i = 0; i < m.nn(); i++) m.xyz[3 * i] *= sx, m.xyz[3 * i + 1] *= sy, m.xyz[3 * i + 2] *= sz;
                p = pg::from_trimesh(m), feature = 2 * std::min(sx, std::min(sy, sz));
                break;
            }
            case 5: {
                double a = *uniform(0.6, 1.0), h = *uniform(0.5, 1.0);
                p = pg::lprism(a, h), feature = std::min(a, 2 * h);
                if (force_triangulated) p = pg::from_trimesh(pg::triangulate(p));
                break;
            }
            case 6: {
                double a = *uniform(0.6, 1.4), b = *uniform(0.6, 1.4), cc = *uniform(0.6, 1.4);
                p = pg::from_trimesh(pg::triangulate(pg::box(a, b, cc))), feature = 2 * std::min(a, std::min(b, cc));
                break;
            }
            default: {
                int n = *irange(3, 9);
                double r = *uniform(0.7, 1.3), h = *uniform(0.5, 1.2);
                p = pg::from_trimesh(pg::triangulate(pg::prism(n, r, h))), feature = std::min(2 * h, n == 3 ? 1.5 * r : n == 4 ? 1.41 * r : 1.7 * r);
                break;
            }
        }
        mg::Placement pl = *mg::genPlacement(true);
        if (pl.mag_class >= 3) pl.mag_class = 2, pl.t[0] /= 100, pl.t[1] /= 100, pl.t[2] /= 100;
        vg::Motion mo = pl.motion();
        for (size_t i = 0; i < p.nn(); i++) {
            auto r = mo.applyd(p.xyz[3 * i], p.xyz[3 * i + 1], p.xyz[3 * i + 2]);
            p.xyz[3 * i] = r[0], p.xyz[3 * i + 1] = r[1], p.xyz[3 * i + 2] = r[2];
        }
        return PolyKind{p, kind, feature * pl.scale};
    });
}

static rc::Gen<RCase> genR() {
    using namespace vf;
    return rc::gen::exec([]() {
        RCase c;
        c.triangulate = *irange(0, 4) != 0;
        auto pk = *genPoly(!c.triangulate);
        c.poly = pk.poly;
        c.kind = pk.kind;
        c.feature = pk.feature;
        const int flipmode = *irange(0, 2);  // 0 none, 1 some, 2 all
        for (size_t i = 0; i < c.poly.faces.size(); i++) c.flip.push_back(flipmode == 0 ? 0 : flipmode == 2 ? 1 : *irange(0, 2) == 0);
        c.lmin_f = *uniform(0.04, 0.16);  // l_max / diameter in [0.12, 0.48]
        // hostile resolutions: l_min of the order of the smallest feature, where the reconstruction is expected to struggle and to use up
        // its retries (only the "valid closed surface or clean failure" clause is judged there, see `coarse` below)
        if (c.triangulate && *irange(0, 3) == 0) c.lmin_f = *uniform(0.2, 0.9);
        c.seed = (uint64_t)*irange(1, 1 << 30);
        return c;
    });
}

// hostile corner of the domain: sharp, thin or non-convex inputs with l_min of the order of their features, so that the bounded retries
// are really used up (judged by runR's "valid closed surface or clean failure" clause only)
static rc::Gen<RCase> genCoarse() {
    using namespace vf;
    return rc::gen::exec([]() {
        RCase c;
        c.triangulate = 1;
        pg::Poly p;
        double feature = 1;
        const int shape = *irange(0, 5);
        if (shape >= 4) {
            // sharp wedge: prism over a triangle (or kite) with a very acute angle
            const double w = *uniform(0.08, 0.4), h = *uniform(0.15, 0.6);
            if (shape == 4) p = pg::prism_over({{0, 0}, {1, 0}, {1, w}}, h);
            else p = pg::prism_over({{0, 0}, {1, -w / 2}, {1.25, 0}, {1, w / 2}}, h);
            feature = std::min(w, 2 * h), c.kind = 1;
        } else if (shape == 0) {
            double a = *uniform(0.5, 1.0), h = *uniform(0.15, 0.8);
            p = pg::lprism(a, h), feature = std::min(a, 2 * h), c.kind = 5;
        } else if (shape == 1) {
            int n = *irange(3, 5);
            double r = *uniform(0.7, 1.3), h = *uniform(0.1, 0.5);  // thin plate / wedge
            p = pg::prism(n, r, h), feature = 2 * h, c.kind = 1;
        } else if (shape == 2) {
            TriMesh m = mg::bipyramid(*irange(3, 5));
            double sz = *uniform(0.25, 2.5);  // flat lens or needle
            for (size_t i = 0; i < m.nn(); i++) m.xyz[3 * i + 2] *= sz;
            p = pg::from_trimesh(m), feature = std::min(1.0, sz), c.kind = 2;
        } else {
            double a = *uniform(0.6, 1.4), b = *uniform(0.15, 0.5), cc = *uniform(0.6, 1.4);
            p = pg::box(a, b, cc), feature = 2 * b, c.kind = 0;
        }
        mg::Placement pl = *mg::genPlacement(true);
        if (pl.mag_class >= 2) pl.mag_class = 1, pl.t[0] /= 100, pl.t[1] /= 100, pl.t[2] /= 100;
        if (pl.mag_class >= 3) pl.t[0] /= 10, pl.t[1] /= 10, pl.t[2] /= 10;
        vg::Motion mo = pl.motion();
        for (size_t i = 0; i < p.nn(); i++) {
            auto r = mo.applyd(p.xyz[3 * i], p.xyz[3 * i + 1], p.xyz[3 * i + 2]);
            p.xyz[3 * i] = r[0], p.xyz[3 * i + 1] = r[1], p.xyz[3 * i + 2] = r[2];
        }
        c.poly = p;
        c.feature = feature * pl.scale;
        for (size_t i = 0; i < c.poly.faces.size(); i++) c.flip.push_back(0);
        c.lmin_f = *uniform(0.25, 1.1);
        c.seed = (uint64_t)*irange(1, 1 << 30);
        return c;
    });
}

static std::string runR(const RCase& k, vf::Ctx& ctx) {
    ct::CellScope scope;
    const TriMesh exact = pg::triangulate(k.poly);  // outward wound exact surface of the input
    const ld size = vg::mesh_size(exact), diam = size / sqrtl(3.0L);
    const ld Vex = vg::signed_volume(exact);
    if (!(Vex > 0)) return "harness: generated polyhedron is not outward wound";
    const double feature = k.feature > 0 ? k.feature : (double)diam;
    const double lmin = k.lmin_f * feature, lmax = 3 * lmin;  // l_max / smallest feature in [0.12, 0.48]
    // input file with the generated winding mix
    pg::VtkCell vc;
    vc.poly = k.poly;
    for (size_t i = 0; i < vc.poly.faces.size(); i++)
        if (k.flip[i]) std::reverse(vc.poly.faces[i].begin(), vc.poly.faces[i].end());
    vc.type_id = 0;
    const std::string path = scratch() + "/in.vtk";
    pg::write_vtk(path, {vc});
    global_simulation_parameters sp;
    sp.input_mesh_path_ = path;
    sp.output_folder_path_ = scratch() + "/out";
    sp.perform_initial_triangulation_ = k.triangulate != 0;
    sp.min_edge_len_ = lmin;
    sp.contact_cutoff_adhesion_ = sp.contact_cutoff_repulsion_ = lmin * 0.3;
    sp.time_step_ = sp.sampling_period_ = 1e-3;
    sp.simulation_duration_ = 1;
    sp.damping_coefficient_ = 1;
    auto type = ct::default_cell_type(3);
    simucell3d_verif::seed_source() = next_seed;
    g_seed_state = k.seed;
    srand((unsigned)k.seed);
    std::vector<cell_ptr> cells;
    bool failed = false;
    std::string what, tname;
    // the library reports every retry on stderr; silence it for the campaign
    FILE* saved = nullptr;
    int saved_fd = dup(2);
    if (!getenv("VERIF_DEBUG")) saved = freopen("/dev/null", "w", stderr);
    try {
        simulation_initializer init(sp, {type}, false);
        cells = init.get_cell_lst();
    } catch (const intialization_exception& e) {
        failed = true, what = e.what(), tname = "intialization_exception";
    } catch (const std::exception& e) {
        failed = true, what = e.what(), tname = typeid(e).name();
    }
    if (saved) {
        fflush(stderr);
        dup2(saved_fd, 2);
    }
    close(saved_fd);
    simucell3d_verif::seed_source() = nullptr;
    scope.add(cells);
    if (failed) {
        ctx.count(std::string("failed_") + KIND[k.kind]);
        if (k.triangulate && k.lmin_f > 0.17) ctx.count("coarse_resolution_failed_cleanly");
        if (tname != "intialization_exception") ctx.count("failure_reported_by_other_std_exception_" + tname);
        // a clean failure is allowed; with triangulation disabled and a triangulated closed input there is nothing that may fail
        if (!k.triangulate) return "triangulated closed input rejected although the initial triangulation is disabled: " + what;
        return "";
    }
    if (cells.size() != 1 || !cells[0]) return "initialisation returned no cell without reporting a failure";
    cell& C = *cells[0];
    const bool coarse_domain = k.triangulate && k.lmin_f > 0.17;
    ct::TopoOpts topts;
    // with l_min above the thickness of a plate-like input both sides are sampled by one layer of points and the reconstruction is a flat,
    // double-sided sheet: closed and consistently wound, but with (numerically) no inside, so "outward" cannot be judged there
    if (coarse_domain) topts.check_positive_volume = false, topts.check_cached_normals = false;
    std::string t = ct::topo_check(C, topts);
    if (!t.empty()) return std::string("a ") + (k.triangulate ? "reconstructed" : "loaded") + " cell was handed to the solver but " + t;
    if (coarse_domain) {
        TriMesh gm = ct::snapshot(C);
        const ld Vg = vg::signed_volume(gm), d3 = powl(vg::mesh_size(gm), 3);
        if (Vg < -1e-6 * d3) {
            std::ostringstream o2;
            o2 << "a reconstructed cell was handed to the solver inside-out: signed enclosed volume " << (double)Vg << " (size^3 = " << (double)d3 << ")";
            return o2.str();
        }
        if (Vg <= 1e-6 * d3) ctx.count("coarse_resolution_flat_double_sided_result");
    }
    const bool coarse = k.triangulate && k.lmin_f > 0.17;
    if (coarse) {
        ctx.count(std::string("coarse_resolution_succeeded_") + KIND[k.kind]);
        ctx.nontriv();
        return "";
    }
    TriMesh got = ct::snapshot(C);
    std::ostringstream os;
    os << std::setprecision(10);
    const ld V = vg::signed_volume(got);
    if (!k.triangulate) {
        // same node set, same triangles up to orientation repair
        if (got.nt() != exact.nt() && got.nt() != k.poly.faces.size()) return "triangle count changed although the triangulation is disabled";
        if (fabsl(V - Vex) > 1e-9 * Vex) {
            os << "volume " << (double)V << " differs from the input volume " << (double)Vex << " with the triangulation disabled";
            return os.str();
        }
    } else {
        // faithful: volume, bounding box, node-to-surface distance within a resolution dependent tolerance
        const ld rho = (ld)lmax / (ld)feature;  // resolution relative to the smallest feature
        const ld tauV = 0.03 + 0.6 * rho;  // calibrated on the repaired tree: measured maximum ~0.25 rho over 4 seeds
        ctx.count("volume_defect_pct_" + std::to_string((int)(fabsl(V - Vex) / Vex * 100)));
        if (getenv("VERIF_DEBUG")) fprintf(stderr, "OUT tris=%zu nodes=%zu V=%g Vex=%g\n", got.nt(), C.get_nb_of_nodes(), (double)V, (double)Vex);
        if (getenv("VERIF_DEBUG")) fprintf(stderr, "CAL rho=%.3f defect=%.4f kind=%s\n", (double)rho, (double)(fabsl(V - Vex) / Vex), KIND[k.kind]);
        if (fabsl(V - Vex) > tauV * Vex) {
            os << "reconstructed volume " << (double)V << " vs input volume " << (double)Vex << " (allowed relative deviation " << (double)tauV << " at l_max/diameter = " << (double)rho << ")";
            return os.str();
        }
        auto bi = vg::aabb(exact), bo = vg::aabb(got);
        for (int q = 0; q < 3; q++)
            if (bo[q] < bi[q] - lmax || bo[3 + q] > bi[3 + q] + lmax) {
                os << "reconstructed bounding box exceeds the input's by more than l_max on axis " << q;
                return os.str();
            }
        ld worst = 0;
        for (size_t i = 0; i < got.nn(); i++)
            if (cell_tester::node_used(cell_tester::nodes(C)[i])) worst = std::max(worst, vg::dist_to_surface(exact, got.p(i)));
        if (worst > lmax) {
            os << "a node of the reconstructed surface is " << (double)worst << " away from the input surface (l_max = " << lmax << ")";
            return os.str();
        }
    }
    ctx.count(std::string("succeeded_") + KIND[k.kind]);
    bool any_flip = false;
    for (unsigned f : k.flip) any_flip |= f != 0;
    if (any_flip) ctx.count("succeeded_with_inward_wound_input_faces");
    ctx.nontriv();
    std::ostringstream s2;
    s2 << KIND[k.kind] << " faces=" << k.poly.faces.size() << " triangulate=" << k.triangulate << " lmin/diam=" << k.lmin_f << " -> " << got.nt() << " triangles, V/Vin=" << (double)(V / Vex);
    ctx.sample(s2.str());
    return "";
}

// ---------------------------------------------------------------------------------------------- poisson
static std::string runPoisson(const RCase& k, vf::Ctx& ctx) {
    ct::CellScope scope;
    const TriMesh exact = pg::triangulate(k.poly);
    const ld diam = vg::mesh_size(exact) / sqrtl(3.0L);
    const double lmin = k.lmin_f * (k.feature > 0 ? k.feature : (double)diam);
    cell_ptr c;
    try {
        c = std::make_shared<cell>(exact.xyz, exact.tri, 0);
        c->initialize_cell_properties(false);
    } catch (const std::exception& e) {
        return std::string("coarse cell rejected: ") + e.what();
    }
    scope.add(c);
    simucell3d_verif::seed_source() = next_seed;
    g_seed_state = k.seed;
    std::vector<oriented_point> pts;
    try {
        pts = poisson_sampling::compute_poisson_point_cloud(lmin, c);
    } catch (const std::exception& e) {
        simucell3d_verif::seed_source() = nullptr;
        ctx.count("sampling_threw");
        return "";
    }
    simucell3d_verif::seed_source() = nullptr;
    std::ostringstream os;
    os << std::setprecision(12);
    for (size_t i = 0; i < pts.size(); i++) {
        V3 p = ct::to_v3(pts[i].position_);
        ld d = vg::dist_to_surface(exact, p);
        if (d > 1e-9 * diam) {
            os << "sample " << i << " is " << (double)d << " away from the input surface";
            return os.str();
        }
        for (size_t j = i + 1; j < pts.size(); j++) {
            ld dd = (p - ct::to_v3(pts[j].position_)).norm();
            if (dd < (ld)lmin * (1 - 1e-12)) {
                os << "samples " << i << " and " << j << " are " << (double)dd << " apart, closer than the minimum edge length " << lmin;
                return os.str();
            }
        }
    }
    ctx.count("clouds_checked");
    ctx.count("samples", (long long)pts.size());
    if (pts.size() >= 10) {
        ctx.nontriv();
        std::ostringstream s2;
        s2 << KIND[k.kind] << " lmin/diam=" << k.lmin_f << " samples=" << pts.size();
        ctx.sample(s2.str());
    }
    return "";
}

// ---------------------------------------------------------------------------------------------- holes
class bpa_tester {
  public:
    // builds the internal state of the ball pivoting from a triangle mesh with some triangles missing
    static std::unique_ptr<ball_pivoting_algorithm> make(const TriMesh& m, const std::vector<bool>& removed, double lmin) {
        std::unique_ptr<ball_pivoting_algorithm> b(new ball_pivoting_algorithm(lmin));
        V3 cen = vg::vertex_mean(m);
        for (size_t i = 0; i < m.nn(); i++) {
            V3 n = m.p(i) - cen;
            n = n * (1 / n.norm());
            b->node_lst_.emplace_back((unsigned)i, ct::to_vec3(m.p(i)), ct::to_vec3(n));
        }
        for (size_t t = 0; t < m.nt(); t++) {
            if (removed[t]) continue;
            const unsigned fid = (unsigned)b->face_lst_.size();
            unsigned id[3] = {m.tri[3 * t], m.tri[3 * t + 1], m.tri[3 * t + 2]};
            b->face_lst_.emplace_back(id[0], id[1], id[2], fid);
            for (int q = 0; q < 3; q++) {
                const size_t before = b->edge_lst_.size();
                unsigned e = b->get_edge(id[q], id[(q + 1) % 3]);
                b->edge_lst_[e].add_face(fid);
                if (b->edge_lst_.size() != before) {
                    b->node_edge_lst_[id[q]].push_back(e);
                    b->node_edge_lst_[id[(q + 1) % 3]].push_back(e);
                }
                b->node_face_lst_[id[q]].push_back(fid);
            }
        }
        return b;
    }
};

struct HCase {
    int level = 1;
    std::vector<unsigned> holes;  // triangle picks
    int quads = 0;
    void write(vf::Writer& w) const {
        w.i(level), w.i(quads), w.vu(holes);
    }
    static HCase read(vf::Reader& r) {
        HCase c;
        c.level = (int)r.i(), c.quads = (int)r.i(), c.holes = r.vu();
        return c;
    }
};
static rc::Gen<HCase> genH() {
    using namespace vf;
    return rc::gen::exec([]() {
        HCase c;
        c.level = *irange(0, 2);
        c.quads = *irange(0, 1);
        int n = *irange(1, 8);
        for (int i = 0; i < n; i++) c.holes.push_back((unsigned)*irange(0, 100000));
        return c;
    });
}
static std::string runH(const HCase& k, vf::Ctx& ctx) {
    ct::CellScope scope;
    TriMesh m = mg::icosphere(k.level);
    std::vector<bool> removed(m.nt(), false);
    std::set<unsigned> blocked;  // nodes already on a hole: holes must not touch each other
    int nholes = 0;
    auto try_remove = [&](size_t t) {
        for (int q = 0; q < 3; q++)
            if (blocked.count(m.tri[3 * t + q])) return false;
        return true;
    };
    for (unsigned pick : k.holes) {
        size_t t = pick % m.nt();
        if (removed[t] || !try_remove(t)) continue;
        size_t t2 = m.nt();
        if (k.quads) {
            // neighbour across the first edge
            unsigned a = m.tri[3 * t], b = m.tri[3 * t + 1];
            for (size_t u = 0; u < m.nt(); u++) {
                if (u == t || removed[u]) continue;
                bool ha = false, hb = false;
                for (int q = 0; q < 3; q++) ha |= m.tri[3 * u + q] == a, hb |= m.tri[3 * u + q] == b;
                if (ha && hb && try_remove(u)) t2 = u;
            }
        }
        removed[t] = true;
        for (int q = 0; q < 3; q++) blocked.insert(m.tri[3 * t + q]);
        if (t2 < m.nt()) {
            removed[t2] = true;
            for (int q = 0; q < 3; q++) blocked.insert(m.tri[3 * t2 + q]);
        }
        // also block the ring around the hole so that holes do not share nodes
        nholes++;
    }
    if (nholes == 0) return "";
    auto b = bpa_tester::make(m, removed, 0.5);
    bool threw = false;
    try {
        b->fill_surface_holes();
    } catch (const bpa_exception&) {
        threw = true;
    } catch (const mesh_integrity_exception&) {
        threw = true;
    } catch (const std::exception& e) {
        return std::string("hole filling threw an unexpected exception type: ") + typeid(e).name() + " " + e.what();
    }
    if (threw) {
        ctx.count("hole_filling_reported_failure");
        return "";
    }
    // the result, converted to a cell, must be a closed manifold
    TriMesh out;
    for (auto& n : b->get_node_lst()) mg::add_node(out, n.position_.dx(), n.position_.dy(), n.position_.dz());
    for (auto& f : b->get_face_lst()) {
        auto ids = f.get_node_ids();
        mg::add_tri(out, ids[0], ids[1], ids[2]);
    }
    cell_ptr c;
    try {
        c = ct::make_cell<epithelial_cell>(out, 0, ct::default_cell_type(1));
    } catch (const std::exception& e) {
        return std::string("hole filling returned normally but the surface is rejected: ") + e.what();
    }
    scope.add(c);
    std::string t = ct::topo_check(*c);
    if (!t.empty()) return "hole filling returned normally but " + t;
    ctx.count("holes_filled", nholes);
    if (nholes >= 2) ctx.count("cases_with_several_holes");
    ctx.nontriv();
    std::ostringstream s2;
    s2 << "icosphere level " << k.level << ", " << nholes << (k.quads ? " quad" : " triangle") << " holes -> " << out.nt() << " triangles";
    ctx.sample(s2.str());
    return "";
}

int main(int argc, char** argv) {
    std::vector<vf::Sub> subs;
    subs.push_back(vf::make_sub<RCase>("reconstruct", genR, runR));
    subs.push_back(vf::make_sub<RCase>("coarse", genCoarse, runR));
    subs.push_back(vf::make_sub<RCase>("poisson", genR, runPoisson));
    subs.push_back(vf::make_sub<HCase>("holes", genH, runH));
    int rc = vf::engine_main(argc, argv, "C13_reconstruct", subs);
    std::error_code ec;
    std::filesystem::remove_all(scratch(), ec);
    return rc;
}
