// C05 — point/triangle kernel: barycentric coordinates designate the closest point, d2 is its squared distance,
// both invariant under rigid motion.  Oracle: independent feature-brute-force closest point (geom.hpp).
#include "common/engine.hpp"
#include "common/geom.hpp"

#include "contact_model_abstract.hpp"

using namespace vg;

struct Case {
    double a[3], b[3], c[3], p[3];      // configuration handed to the kernel
    double qrot[4], tr[3];              // rigid motion for the metamorphic clause
    int region;                         // region the generator aimed at (0..6), informational
    void write(vf::Writer& w) const {
        for (double v : a) w.d(v);
        for (double v : b) w.d(v);
        for (double v : c) w.d(v);
        for (double v : p) w.d(v);
        for (double v : qrot) w.d(v);
        for (double v : tr) w.d(v);
        w.i(region);
        w.nl();
    }
    static Case read(vf::Reader& r) {
        Case k;
        for (double& v : k.a) v = r.d();
        for (double& v : k.b) v = r.d();
        for (double& v : k.c) v = r.d();
        for (double& v : k.p) v = r.d();
        for (double& v : k.qrot) v = r.d();
        for (double& v : k.tr) v = r.d();
        k.region = (int)r.i();
        return k;
    }
};

static const char* REG[] = {"vertexA", "vertexB", "vertexC", "edgeAB", "edgeAC", "edgeBC", "interior"};

static rc::Gen<Case> genCase() {
    using namespace vf;
    return rc::gen::exec([]() {
        Case k;
        k.region = *irange(0, 6);
        const double L = *rc::gen::element(1e-6, 1e-5, 1.0, 1.0, 37.0, 1e3, 1e-8, 3e-10, 1e-12, 1e6);  // picometre-sized features in metres .. micrometres-in-metres .. large: the kernel is scale free
        // triangle in its own plane: A=(0,0), B=(1,0), C=(cx,cy); cy >= 2e-3 keeps it non-degenerate
        const double cx = *uniform(-2.0, 3.0);
        const double cy = *rc::gen::oneOf(uniform(0.3, 2.0), loguniform(2e-3, 0.3));
        V3 A(0, 0, 0), B(1, 0, 0), C(cx, cy, 0), N(0, 0, 1);
        const double s1 = *rc::gen::oneOf(rc::gen::just(0.0), loguniform(1e-6, 3.0));
        const double s2 = *rc::gen::oneOf(rc::gen::just(0.0), loguniform(1e-6, 3.0));
        const double h = *rc::gen::oneOf(rc::gen::just(0.0), uniform(-2.0, 2.0), loguniform(1e-8, 1e-2));
        const double t = *uniform(0.0, 1.0);
        V3 P;
        auto outward = [&](const V3& e0, const V3& e1, const V3& opp) {  // in-plane unit normal of edge pointing away from opp
            V3 d = e1 - e0;
            V3 n(-d.y, d.x, 0);
            n = n * (1 / n.norm());
            if (n.dot(opp - e0) > 0) n = n * -1;
            return n;
        };
        auto dual_away = [&](const V3& v, const V3& u1, const V3& u2) {
            // x with x.(u1-v) = -s1, x.(u2-v) = -s2 (in plane): lies in the vertex region of v
            V3 e1 = u1 - v, e2 = u2 - v;
            ld g11 = e1.dot(e1), g12 = e1.dot(e2), g22 = e2.dot(e2), det = g11 * g22 - g12 * g12;
            ld al = (-s1 * g22 + s2 * g12) / det, be = (-s2 * g11 + s1 * g12) / det;
            return v + e1 * al + e2 * be;
        };
        switch (k.region) {
            case 0: P = dual_away(A, B, C); break;
            case 1: P = dual_away(B, A, C); break;
            case 2: P = dual_away(C, A, B); break;
            case 3: P = A + (B - A) * t + outward(A, B, C) * s1; break;
            case 4: P = A + (C - A) * t + outward(A, C, B) * s1; break;
            case 5: P = B + (C - B) * t + outward(B, C, A) * s1; break;
            default: {
                double u = *uniform(0.0, 1.0), v = *uniform(0.0, 1.0);
                if (u + v > 1) {
                    u = 1 - u;
                    v = 1 - v;
                }
                P = A * (1 - u - v) + B * u + C * v;
            }
        }
        P = P + N * h;
        // placement of the whole configuration
        Motion m;
        m.q = Quat::from(*uniform(-1, 1), *uniform(-1, 1), *uniform(-1, 1), *uniform(-1, 1));
        m.scale = L;
        // "every position relative to the coordinate origin": up to 1e10 triangle sizes out (a micrometre triangle in a tissue placed metres
        // to kilometres from the origin); the closest-point clause below is judged relative to vertex A, independently of that distance
        const double mag = *rc::gen::element(0.0, 0.0, 1.0, 10.0, 100.0, 1000.0, 1e5, 1e7, 1e10);
        m.t = V3(*uniform(-1, 1), *uniform(-1, 1), *uniform(-1, 1)) * (mag * L);
        auto put = [&](const V3& v, double* o) {
            V3 r = m.apply(v);
            o[0] = (double)r.x;
            o[1] = (double)r.y;
            o[2] = (double)r.z;
        };
        put(A, k.a);
        put(B, k.b);
        put(C, k.c);
        put(P, k.p);
        // second, independent rigid motion for the invariance clause
        k.qrot[0] = *uniform(-1, 1);
        k.qrot[1] = *uniform(-1, 1);
        k.qrot[2] = *uniform(-1, 1);
        k.qrot[3] = *uniform(-1, 1);
        const double mag2 = *rc::gen::element(0.0, 1.0, 10.0, 100.0, 1000.0);
        for (double& v : k.tr) v = *uniform(-1, 1) * mag2 * L;
        return k;
    });
}

struct Eval {
    ld d2_code;
    V3 q;
    ld bsum, bmin;
};

// one evaluation of the kernel + the absolute clauses; returns violation text or ""
static std::string eval_config(const V3& a, const V3& b, const V3& c, const V3& p, Eval& ev, const char* tag) {
    auto tov = [](const V3& v) { return vec3((double)v.x, (double)v.y, (double)v.z); };
    const auto res = contact_model_abstract::compute_node_triangle_distance(tov(p), tov(a), tov(b), tov(c));
    const double d2 = res.first;
    const ld b1 = res.second.dx(), b2 = res.second.dy(), b3 = res.second.dz();
    ev.d2_code = d2;
    ev.bsum = b1 + b2 + b3;
    ev.bmin = std::min(b1, std::min(b2, b3));
    std::ostringstream os;
    os << std::setprecision(17);
    if (!(std::isfinite(d2)) || !std::isfinite((double)ev.bsum)) {
        os << tag << ": non-finite result d2=" << d2;
        return os.str();
    }
    if (ev.bmin < -8 * EPS) {
        os << tag << ": negative barycentric coordinate " << (double)ev.bmin;
        return os.str();
    }
    if (fabsl(ev.bsum - 1) > 8 * EPS) {
        os << tag << ": barycentric coordinates sum to " << (double)ev.bsum;
        return os.str();
    }
    ev.q = a * b1 + b * b2 + c * b3;
    const ld dq2 = (p - ev.q).n2();
    const Closest ref = closest_on_triangle(p, a, b, c);
    // absolute coordinate error of one double subtraction/multiply-add chain at this magnitude
    const ld mag = std::max(std::max(a.maxabs(), b.maxabs()), std::max(c.maxabs(), p.maxabs()));
    const ld size = std::max((b - a).norm(), std::max((c - a).norm(), (c - b).norm()));
    const ld E = 32 * EPS * (mag + size);
    const ld d = sqrtl(std::max(dq2, ref.d2));
    const ld tol = 4 * (2 * d * E + E * E);
    if (fabsl((ld)d2 - dq2) > tol) {
        os << tag << ": returned squared distance " << d2 << " but the designated point is at squared distance "
           << (double)dq2 << " (tol " << (double)tol << ")";
        return os.str();
    }
    // closest: the designated point must not be farther than the true closest point.  The conditioning of
    // the barycentric coordinates in thin triangles adds an error proportional to size*eps*aspect; bound by
    // E_b = 64 eps * size * (size^2 / (2 area)) on the position of q.
    const ld ar = tri_area(a, b, c);
    const ld Eb = E + 64 * EPS * size * (size * size / (2 * ar));
    const ld tol2 = 4 * (2 * d * Eb + Eb * Eb);
    if (dq2 > ref.d2 + tol2) {
        os << tag << ": designated point at squared distance " << (double)dq2 << " but a point of the triangle is at "
           << (double)ref.d2 << " (tol " << (double)tol2 << ")";
        return os.str();
    }
    {
        // the same clause without the distance to the origin in the tolerance: the point the coordinates designate is taken relative to
        // vertex A (q = A + b2 AB + b3 AC; b1 is fixed by the sum clause above), so only the triangle's own size and the distance of the
        // query point enter. The inputs are exact doubles and the kernel works on differences of them, whatever the placement.
        const V3 qr = (b - a) * b2 + (c - a) * b3;  // relative to A: differences of the input doubles are exact in long double
        const ld dqr2 = ((p - a) - qr).n2();
        const ld Er = 32 * EPS * (size + d) + 64 * EPS * size * (size * size / (2 * ar));
        const ld tolr = 4 * (2 * d * Er + Er * Er);
        if (dqr2 > ref.d2 + tolr) {
            os << tag << ": the point designated relative to vertex A is at squared distance " << (double)dqr2 << " but a point of the triangle is at "
               << (double)ref.d2 << " (tol " << (double)tolr << ", triangle size " << (double)size << ", " << (double)(mag / size) << " sizes from the origin)";
            return os.str();
        }
    }
    return "";
}

static std::string run(const Case& k, vf::Ctx& ctx) {
    V3 a(k.a[0], k.a[1], k.a[2]), b(k.b[0], k.b[1], k.b[2]), c(k.c[0], k.c[1], k.c[2]), p(k.p[0], k.p[1], k.p[2]);
    const ld size = std::max((b - a).norm(), std::max((c - a).norm(), (c - b).norm()));
    const ld ar = tri_area(a, b, c);
    if (!(ar > 1e-7 * size * size)) {  // degenerate triangle: outside the property's domain
        ctx.count("skipped_degenerate");
        return "";
    }
    Eval e0, e1;
    std::string m = eval_config(a, b, c, p, e0, "original");
    if (!m.empty()) return m;
    // rigid motion (coordinates rounded to double as the kernel only sees doubles)
    Motion mo;
    mo.q = Quat::from(k.qrot[0], k.qrot[1], k.qrot[2], k.qrot[3]);
    mo.t = V3(k.tr[0], k.tr[1], k.tr[2]);
    auto rd = [&](const V3& v) {
        V3 r = mo.apply(v);
        return V3((double)r.x, (double)r.y, (double)r.z);
    };
    V3 a2 = rd(a), b2 = rd(b), c2 = rd(c), p2 = rd(p);
    m = eval_config(a2, b2, c2, p2, e1, "moved");
    if (!m.empty()) return m;
    {
        const ld mag = std::max(std::max(a.maxabs(), p.maxabs()), std::max(a2.maxabs(), p2.maxabs()));
        const ld E = 64 * EPS * (mag + size) + 64 * EPS * size * (size * size / (2 * ar));
        const ld d = sqrtl(std::max(e0.d2_code, e1.d2_code));
        const ld tol = 8 * (2 * d * E + E * E);
        if (fabsl(e0.d2_code - e1.d2_code) > tol) {
            std::ostringstream os;
            os << std::setprecision(17) << "squared distance changes under rigid motion: " << (double)e0.d2_code << " vs "
               << (double)e1.d2_code << " (tol " << (double)tol << ")";
            return os.str();
        }
    }
    // classification for evidence
    ctx.count(std::string("region_") + REG[k.region]);
    const bool far = a.norm() > 10 * size;
    if (far) ctx.count("far_from_origin");
    const Closest ref = closest_on_triangle(p, a, b, c);
    ctx.count(ref.feature == 0 ? "closest_in_interior" : "closest_on_boundary");
    if (k.region != 0 && far) {
        ctx.nontriv();
        std::ostringstream os;
        os << "region=" << REG[k.region] << " a=(" << k.a[0] << "," << k.a[1] << "," << k.a[2] << ") b=(" << k.b[0] << ","
           << k.b[1] << "," << k.b[2] << ") c=(" << k.c[0] << "," << k.c[1] << "," << k.c[2] << ") p=(" << k.p[0] << "," << k.p[1]
           << "," << k.p[2] << ") d2=" << (double)e0.d2_code;
        ctx.sample(os.str());
    }
    return "";
}

int main(int argc, char** argv) {
    std::vector<vf::Sub> subs;
    subs.push_back(vf::make_sub<Case>("kernel", genCase, run));
    return vf::engine_main(argc, argv, "C05_kernel", subs);
}
