// C04 — growth, pressure, division trigger and removal follow the cell-cycle law.
//  sub "direct":  one cell, one call of the public apply_internal_forces(dt): target-volume recurrence (bit-exact),
//                 pressure law against the independent enclosed volume, division eligibility per class, 3-sigma draws.
//  sub "history": a real solver over non-interacting cells with generated growth rates, volume jumps forced by the
//                 harness; per-iteration recurrence, removal below the minimum volume, no resurrection.
#include <mutex>
#include <cstring>

#include "common/engine.hpp"
#include "common/solverkit.hpp"
#include "common/tissuegen.hpp"

#include "verif_hooks.hpp"

using namespace vg;

static uint64_t g_seed_state = 1;
static uint64_t next_seed() {
    g_seed_state = g_seed_state * 6364136223846793005ull + 1442695040888963407ull;
    return g_seed_state >> 20;
}

// ---------------------------------------------------------------------------------------------- direct
struct DCase {
    TriMesh mesh;
    int cls = 0;
    double K = 1, pmax = 1e300, g = 0, sg = 0, vdiv_f = 2, svdiv_f = 0, vmin_f = 0.1, vt_f = 1, dt = 1e-3;
    uint64_t seed = 1;
    void write(vf::Writer& w) const {
        mg::write_mesh(w, mesh);
        w.i(cls), w.d(K), w.d(pmax), w.d(g), w.d(sg), w.d(vdiv_f), w.d(svdiv_f), w.d(vmin_f), w.d(vt_f), w.d(dt), w.u(seed);
        w.nl();
    }
    static DCase read(vf::Reader& r) {
        DCase c;
        c.mesh = mg::read_mesh(r);
        c.cls = (int)r.i(), c.K = r.d(), c.pmax = r.d(), c.g = r.d(), c.sg = r.d(), c.vdiv_f = r.d(), c.svdiv_f = r.d(), c.vmin_f = r.d(), c.vt_f = r.d(), c.dt = r.d(),
        c.seed = r.u();
        return c;
    }
};
static rc::Gen<DCase> genD() {
    using namespace vf;
    return rc::gen::exec([]() {
        DCase c;
        mg::ShapeSpec s = *mg::genShape(1);
        mg::Placement pl = *mg::genPlacement(true);
        c.mesh = mg::place(mg::build_shape(s), pl);
        c.cls = *rc::gen::weightedElement<int>({{5, 0}, {1, 1}, {2, 2}, {2, 3}, {1, 4}});
        c.K = *loguniform(1e-3, 1e4);
        c.pmax = *rc::gen::oneOf(rc::gen::just(1e300), loguniform(1e-3, 1e2));
        c.g = *rc::gen::oneOf(rc::gen::just(0.0), uniform(-5, 5));       // in units of V per unit time
        c.sg = *rc::gen::oneOf(rc::gen::just(0.0), uniform(0.0, 1.0));
        c.vdiv_f = *rc::gen::oneOf(rc::gen::just(1e300), uniform(0.5, 2.0), rc::gen::just(1.0));
        c.svdiv_f = *rc::gen::oneOf(rc::gen::just(0.0), uniform(0.0, 0.2), uniform(0.3, 1.0));  // 3 sigma > mean: negative division volumes are drawn
        c.vmin_f = *rc::gen::element(0.0, 0.1, 0.9, 1.0, 1.5);
        c.vt_f = *rc::gen::element(1.0, 0.5, 0.99, 1.2, 3.0);
        c.dt = *loguniform(1e-5, 1e-1);
        c.seed = (uint64_t)*irange(1, 1 << 30);
        return c;
    });
}

static std::string runD(const DCase& k, vf::Ctx& ctx) {
    ct::CellScope scope;
    const ld V0 = fabsl(vg::signed_volume(k.mesh));
    if (!(V0 > 0)) return "";
    auto type = ct::default_cell_type(3);
    type->global_type_id_ = (short)k.cls;
    type->bulk_modulus_ = k.K;
    type->max_pressure_ = k.pmax >= 1e299 ? std::numeric_limits<double>::infinity() : k.pmax;
    type->avg_growth_rate_ = k.g * (double)V0;
    type->std_growth_rate_ = k.sg * std::fabs(k.g) * (double)V0;
    type->avg_division_vol_ = k.vdiv_f >= 1e299 ? std::numeric_limits<double>::infinity() : k.vdiv_f * (double)V0;
    type->std_division_vol_ = k.svdiv_f * (double)V0;
    type->min_vol_ = k.vmin_f * (double)V0;
    simucell3d_verif::seed_source() = next_seed;
    g_seed_state = k.seed;
    cell_ptr c;
    try {
        c = ct::make_cell_of_class(k.cls, k.mesh, 0, type);
    } catch (const std::exception& e) {
        simucell3d_verif::seed_source() = nullptr;
        return std::string("cell rejects generated mesh: ") + e.what();
    }
    scope.add(c);
    cell& C = *c;
    std::ostringstream os;
    os << std::setprecision(17);
    // ---- 3-sigma law of the drawn growth rate / division volume (many draws with the seeded generator)
    for (int d = 0; d < 60; d++) {
        C.initialize_random_properties();
        const double g = C.get_growth_rate(), vd = C.get_division_volume();
        const double gm = type->avg_growth_rate_, gs = type->std_growth_rate_, vm = type->avg_division_vol_, vs = type->std_division_vol_;
        if (gs == 0 ? g != gm : !(std::fabs(g - gm) <= 3 * gs * (1 + 1e-12))) {
            os << "drawn growth rate " << g << " outside mean +/- 3 sigma (" << gm << ", " << gs << ")";
            simucell3d_verif::seed_source() = nullptr;
            return os.str();
        }
        if (std::isinf(vm) ? !(std::isinf(vd) && vd > 0) : (vs == 0 ? vd != vm : !(std::fabs(vd - vm) <= 3 * vs * (1 + 1e-12)))) {
            os << "drawn division volume " << vd << " outside mean +/- 3 sigma (" << vm << ", " << vs << ")";
            simucell3d_verif::seed_source() = nullptr;
            return os.str();
        }
    }
    simucell3d_verif::seed_source() = nullptr;
    // ---- one application of the internal forces
    const double vt0 = k.vt_f * (double)V0;
    C.set_target_volume(vt0);
    const double g = C.get_growth_rate();
    C.apply_internal_forces(k.dt);
    const bool is_static = C.is_static();
    if (k.cls == 1 && is_static) {
        // ECM cells are static: they are not subject to internal forces (nothing to check but that nothing changed)
        if (C.get_target_volume() != vt0) return "target volume of a static ECM cell changed";
        ctx.count("static_ecm_untouched");
        return "";
    }
    double vt_expect = vt0 + k.dt * g;
    if (vt_expect < type->min_vol_) vt_expect = type->min_vol_;
    if (C.get_target_volume() != vt_expect) {
        os << "target volume after one step is " << C.get_target_volume() << ", law max(Vt + g dt, Vmin) gives " << vt_expect << " (Vt=" << vt0 << " g=" << g << " dt=" << k.dt
           << " Vmin=" << type->min_vol_ << ")";
        return os.str();
    }
    if (!(C.get_target_volume() >= type->min_vol_)) return "target volume dropped below the minimum volume";
    // pressure against the independent volume; conditioning of the code's origin-anchored volume: 32 F eps (1 + D/s)^3
    const ld D = vg::dist_from_origin(k.mesh), s = vg::mesh_size(k.mesh);
    const ld relV = 32 * (ld)k.mesh.nt() * EPS * powl(D + s, 3) / V0;
    ld Pl = -(ld)k.K * logl(V0 / (ld)vt_expect);
    const ld Pcap = type->max_pressure_;
    ld Pexp = std::min(Pl, Pcap);
    const ld tolP = (ld)k.K * (relV + 16 * EPS) + 16 * EPS * fabsl(Pl);
    if (fabsl((ld)C.get_pressure() - Pexp) > tolP && !(fabsl(Pl - Pcap) < tolP && fabsl((ld)C.get_pressure() - Pcap) <= tolP)) {
        os << "pressure " << C.get_pressure() << " but min(-K ln(V/Vt), Pmax) = " << (double)Pexp << " (K=" << k.K << " V=" << (double)V0 << " Vt=" << vt_expect
           << " Pmax=" << (double)Pcap << " tol " << (double)tolP << ")";
        return os.str();
    }
    if (C.get_pressure() > type->max_pressure_) return "pressure exceeds the maximum pressure of the cell type";
    if (fabsl((ld)C.get_volume() - V0) > relV * V0 + 16 * EPS * V0) return "cached volume differs from the enclosed volume";
    // division eligibility
    const bool ready = C.is_ready_to_divide();
    const ld vdiv = C.get_division_volume();
    if (k.cls != 0) {
        if (ready) return "a non-epithelial cell reports that it is ready to divide";
    } else {
        const ld margin = relV * V0 + 16 * EPS * V0;
        if (V0 >= vdiv + margin && !ready) {
            os << "epithelial cell of volume " << (double)V0 << " >= division volume " << (double)vdiv << " is not ready to divide";
            return os.str();
        }
        if (V0 < vdiv - margin && ready) {
            os << "epithelial cell of volume " << (double)V0 << " < division volume " << (double)vdiv << " is ready to divide";
            return os.str();
        }
    }
    ctx.count(std::string("class_") + std::to_string(k.cls));
    const bool clamp_v = vt0 + k.dt * g < type->min_vol_, clamp_p = Pl > Pcap;
    if (clamp_v) ctx.count("target_volume_clamped_at_min");
    if (clamp_p) ctx.count("pressure_capped");
    if (ready) ctx.count("ready_to_divide");
    if (vdiv < 0) ctx.count("negative_division_volume_drawn");
    if (g < 0) ctx.count("negative_growth");
    if (clamp_v || clamp_p || ready) {
        ctx.nontriv();
        std::ostringstream s2;
        s2 << "class " << k.cls << " V=" << (double)V0 << " Vt0=" << vt0 << " g=" << g << " dt=" << k.dt << " Vmin=" << type->min_vol_ << " P=" << C.get_pressure()
           << " Pmax=" << (double)Pcap << " Vdiv=" << (double)vdiv;
        ctx.sample(s2.str());
    }
    return "";
}

// ---------------------------------------------------------------------------------------------- history
struct HOp {
    int kind = 0;  // 0 step, 1 scale cell
    unsigned k = 0;
    double f = 1;
    int n = 1;
};
struct HCase {
    int ncells = 3, threads = 1;
    std::vector<double> growth;  // per cell, in volumes per unit time
    std::vector<double> radius;
    std::vector<double> cls;     // per cell: class among those subject to internal forces (0 epithelial, 2 lumen, 3 nucleus, 4 static)
    double dt = 1e-3, vmin_f = 0.3, pmax = 1e300;
    std::vector<HOp> ops;
    void write(vf::Writer& w) const {
        w.i(ncells), w.i(threads), w.vd(growth), w.vd(radius), w.d(dt), w.d(vmin_f), w.d(pmax), w.u(ops.size());
        w.nl();
        for (auto& o : ops) w.i(o.kind), w.u(o.k), w.d(o.f), w.i(o.n);
        w.nl();
        w.vd(cls);
    }
    static HCase read(vf::Reader& r) {
        HCase c;
        c.ncells = (int)r.i(), c.threads = (int)r.i(), c.growth = r.vd(), c.radius = r.vd(), c.dt = r.d(), c.vmin_f = r.d(), c.pmax = r.d();
        size_t n = r.u();
        for (size_t i = 0; i < n; i++) {
            HOp o;
            o.kind = (int)r.i(), o.k = (unsigned)r.u(), o.f = r.d(), o.n = (int)r.i();
            c.ops.push_back(o);
        }
        if (r.more()) c.cls = r.vd();
        return c;
    }
};
static rc::Gen<HCase> genH() {
    using namespace vf;
    return rc::gen::exec([]() {
        HCase c;
        c.ncells = *irange(2, 5);
        c.threads = *rc::gen::element(1, 2, 4);
        for (int i = 0; i < c.ncells; i++) {
            c.growth.push_back(*rc::gen::oneOf(rc::gen::just(0.0), uniform(-20, 20)));
            c.radius.push_back(*uniform(0.8, 1.25));
            c.cls.push_back((double)*rc::gen::element(0, 0, 0, 2, 3, 4, 4));
        }
        c.dt = *rc::gen::element(1e-3, 5e-4, 2e-3);
        c.vmin_f = *rc::gen::element(0.3, 0.5, 0.05);
        c.pmax = *rc::gen::element(1e300, 1e300, 0.05);
        auto genOp = rc::gen::exec([]() {
            HOp o;
            o.kind = *rc::gen::weightedElement<int>({{5, 0}, {2, 1}});
            o.k = (unsigned)*irange(0, 100);
            o.f = *rc::gen::element(0.45, 0.6, 0.85, 1.2);
            o.n = *rc::gen::element(1, 2, 4);
            return o;
        });
        c.ops = *rc::gen::container<std::vector<HOp>>(genOp);
        return c;
    });
}

// enclosed volume of every cell at the moment its internal forces are computed (scheduling hook H3 at the top of
// cell::apply_internal_forces), computed independently of the cell's cached value
static sk::test_solver* g_solver = nullptr;
static std::map<unsigned, ld> g_vol_at_force;
static std::mutex g_vol_mu;
static void on_sched(const char* tag, size_t idx) {
    if (!g_solver || strcmp(tag, "apply_internal_forces") != 0) return;
    auto& cl = g_solver->cells();
    if (idx >= cl.size() || !cl[idx]) return;
    const ld v = fabsl(vg::signed_volume(ct::snapshot(*cl[idx])));
    std::lock_guard<std::mutex> lk(g_vol_mu);
    g_vol_at_force[cl[idx]->get_id()] = v;
}

static std::string runH(const HCase& k, vf::Ctx& ctx) {
    ct::CellScope scope;
    // non-interacting cells: centres 5 radii apart
    tg::Tissue t;
    for (int i = 0; i < k.ncells; i++) {
        tg::CellDesc cd;
        cd.cls = (size_t)i < k.cls.size() ? (int)k.cls[i] : (i == 1 ? 2 : 0);  // every class that is subject to internal forces
        cd.mesh = tg::ball(1, k.radius[i], V3(6.0 * i, 0.5 * i, -0.3 * i));
        t.cells.push_back(cd);
    }
    t.edge = 0.55;
    tg::Built b;
    try {
        b = tg::build(t, 10., 1., &scope);
    } catch (const std::exception& e) {
        return std::string("cell rejects generated mesh: ") + e.what();
    }
    const double Vref = b.cells[0]->get_volume();
    const double vmin = k.vmin_f * 4.0;  // ~ volume of a unit ball is 4.19 (level-1 icosphere a bit less)
    for (auto& ty : b.types) {
        ty->min_vol_ = vmin;
        ty->avg_division_vol_ = std::numeric_limits<double>::infinity();
        ty->max_pressure_ = k.pmax >= 1e299 ? std::numeric_limits<double>::infinity() : k.pmax;
        ty->bulk_modulus_ = 1.0;
    }
    for (size_t i = 0; i < b.cells.size(); i++) {
        b.cells[i]->initialize_random_properties();
        b.cells[i]->set_growth_rate(k.growth[i] * Vref);
    }
    const std::string out = sk::scratch_dir("c04");
    global_simulation_parameters sp = sk::basic_params(out, t.edge);
    sp.time_step_ = k.dt;
    std::unique_ptr<sk::test_solver> S;
    try {
        S.reset(new sk::test_solver(sp, b.cells, k.threads));
    } catch (const std::exception& e) {
        return std::string("solver construction failed: ") + e.what();
    }
    struct Cleanup {
        std::string d;
        sk::test_solver* s;
        ct::CellScope* sc;
        ~Cleanup() {
            simucell3d_verif::sched_point() = nullptr;
            g_solver = nullptr;
            sc->add(s->cells());
            std::error_code ec;
            std::filesystem::remove_all(d, ec);
        }
    } cleanup{out, S.get(), &scope};
    g_solver = S.get();
    simucell3d_verif::sched_point() = on_sched;
    std::set<unsigned> dead;
    long removals = 0, clamps = 0, iters = 0;
    std::ostringstream os;
    os << std::setprecision(17);
    auto one_iteration = [&]() -> std::string {
        struct Pre {
            unsigned id;
            double vt, g;
            ld vol;
            cell_ptr keep;
        };
        std::vector<Pre> pre;
        for (auto& c : S->cells()) pre.push_back({c->get_id(), c->get_target_volume(), c->get_growth_rate(), fabsl(vg::signed_volume(ct::snapshot(*c))), c});
        g_vol_at_force.clear();
        try {
            S->run_iteration();
        } catch (const std::exception&) {
            return "EXC";
        }
        iters++;
        std::map<unsigned, cell_ptr> now;
        for (auto& c : S->cells()) {
            if (dead.count(c->get_id())) {
                os << "cell id " << c->get_id() << " was removed earlier and is back in the population";
                return os.str();
            }
            now[c->get_id()] = c;
        }
        for (auto& p : pre) {
            const double vmin_t = p.keep->get_cell_type()->min_vol_;
            auto it = now.find(p.id);
            if (it == now.end()) {
                dead.insert(p.id);
                removals++;
                if (p.vol > 2 * vmin_t) {
                    os << "cell id " << p.id << " of volume " << (double)p.vol << " (minimum volume " << vmin_t << ") was removed from the population";
                    return os.str();
                }
                continue;
            }
            if (p.vol < 0.5 * vmin_t) {
                os << "cell id " << p.id << " of volume " << (double)p.vol << " < minimum volume " << vmin_t << " is still in the population after the iteration";
                return os.str();
            }
            double vt = p.vt + k.dt * p.g;
            if (vt < vmin_t) vt = vmin_t, clamps++;
            if (it->second->get_target_volume() != vt) {
                os << "cell id " << p.id << ": target volume " << it->second->get_target_volume() << " after the iteration, recurrence max(Vt + g dt, Vmin) gives " << vt;
                return os.str();
            }
            const double P = it->second->get_pressure(), Pmax = it->second->get_cell_type()->max_pressure_;
            if (P > Pmax) return "pressure above the maximum pressure";
            // the forces are applied to the mesh as it is after this iteration's remeshing: use the volume the cell cached
            // at that moment (its agreement with the enclosed volume is the subject of sub 'direct' and of C12)
            const ld Pl = -logl((ld)it->second->get_volume() / (ld)vt);  // K = 1
            if (fabsl(P - std::min<ld>(Pl, Pmax)) > 1e-12 * (1 + fabsl(Pl)) && !(fabsl(Pl - Pmax) < 1e-12)) {
                os << "cell id " << p.id << ": pressure " << P << " but min(-K ln(V/Vt), Pmax) = " << (double)std::min<ld>(Pl, Pmax);
                return os.str();
            }
            // ... and with V = the enclosed volume of the mesh at the moment the forces were computed, measured independently
            // through the scheduling hook (a cached volume that is not refreshed is invisible to the comparison above)
            auto iv = g_vol_at_force.find(p.id);
            if (iv != g_vol_at_force.end()) {
                const ld Pi = -logl(iv->second / (ld)vt);
                if (fabsl(P - std::min<ld>(Pi, Pmax)) > 1e-9 * (1 + fabsl(Pi)) && !(fabsl(Pi - Pmax) < 1e-9)) {
                    os << "cell id " << p.id << " (class " << it->second->get_cell_type_id() << "): pressure " << P << " but min(-K ln(V/Vt), Pmax) = " << (double)std::min<ld>(Pi, Pmax)
                       << " with V = " << (double)iv->second << " the enclosed volume of the mesh the forces were computed on (the cell reports volume " << it->second->get_volume() << ")";
                    return os.str();
                }
                ctx.count("pressure_checked_against_independent_volume_class_" + std::to_string(it->second->get_cell_type_id()));
            }
        }
        return "";
    };
    for (const HOp& o : k.ops) {
        if (S->cells().empty()) break;
        if (o.kind == 1) {
            sk::scale_cell(*S->cells()[o.k % S->cells().size()], o.f);
            continue;
        }
        for (int i = 0; i < o.n && !S->cells().empty(); i++) {
            std::string m = one_iteration();
            if (m == "EXC") {
                ctx.count("history_ended_by_solver_exception");
                return "";
            }
            if (!m.empty()) return "iteration " + std::to_string(S->iteration()) + ": " + m;
        }
    }
    ctx.count("iterations", iters);
    ctx.count("removals", removals);
    ctx.count("clamps_at_min_volume", clamps);
    if (removals && (clamps || k.pmax < 1e299)) {
        ctx.nontriv();
        std::ostringstream s2;
        s2 << k.ncells << " cells, dt=" << k.dt << " vmin=" << vmin << " removals=" << removals << " clamps=" << clamps << " iterations=" << iters;
        ctx.sample(s2.str());
    }
    return "";
}

int main(int argc, char** argv) {
    std::vector<vf::Sub> subs;
    subs.push_back(vf::make_sub<DCase>("direct", genD, runD));
    subs.push_back(vf::make_sub<HCase>("history", genH, runH));
    return vf::engine_main(argc, argv, "C04_cellcycle", subs);
}
