// Generators of small tissues (several cells of mixed classes that overlap, touch, nest or stay apart).
#pragma once
#include <cstring>
#include "celltools.hpp"
#include "engine.hpp"
#include "meshgen.hpp"

namespace tg {
using vg::ld;
using vg::TriMesh;
using vg::V3;

struct CellDesc {
    int cls = 0;       // 0 epithelial 1 ecm 2 lumen 3 nucleus 4 static
    TriMesh mesh;      // placed
    void write(vf::Writer& w) const {
        w.i(cls);
        mg::write_mesh(w, mesh);
    }
    static CellDesc read(vf::Reader& r) {
        CellDesc c;
        c.cls = (int)r.i();
        c.mesh = mg::read_mesh(r);
        return c;
    }
};

struct Tissue {
    std::vector<CellDesc> cells;
    double edge = 1;   // typical edge length of the meshes (unit of l_min / cut-offs)
    std::string note;
    void write(vf::Writer& w) const {
        w.d(edge);
        w.u(cells.size());
        w.nl();
        for (auto& c : cells) c.write(w);
    }
    static Tissue read(vf::Reader& r) {
        Tissue t;
        t.edge = r.d();
        size_t n = r.u();
        for (size_t i = 0; i < n; i++) t.cells.push_back(CellDesc::read(r));
        return t;
    }
};

inline TriMesh ball(int level, double radius, const V3& c, double sx = 1, double sy = 1, double sz = 1) {
    TriMesh m = mg::icosphere(level);
    for (size_t i = 0; i < m.nn(); i++) {
        m.xyz[3 * i] = (double)(m.xyz[3 * i] * radius * sx + c.x);
        m.xyz[3 * i + 1] = (double)(m.xyz[3 * i + 1] * radius * sy + c.y);
        m.xyz[3 * i + 2] = (double)(m.xyz[3 * i + 2] * radius * sz + c.z);
    }
    return m;
}

// arrangement: 0 chain of overlapping/touching cells, 1 cluster, 2 cells inside an ECM shell, 3 nucleus inside a cell (+ neighbours), 4 apart
// class_mode: 0 mixed classes, 1 all epithelial
inline rc::Gen<Tissue> genTissue(int max_cells, int max_level, int class_mode = 0, bool placements = true) {
    using namespace vf;
    return rc::gen::exec([=]() {
        Tissue t;
        const int arr = *irange(0, 4);
        const int n = *irange(2, std::max(2, max_cells));
        const int level = *irange(1, std::max(1, max_level));
        const double scale = placements ? *rc::gen::element(1.0, 1.0, 1e-5, 12.0) : 1.0;
        const double R = 1.0;
        std::vector<V3> centers;
        std::vector<double> radii;
        auto cls_gen = [&]() -> int {
            if (class_mode == 1) return 0;
            return *rc::gen::weightedElement<int>({{6, 0}, {1, 1}, {2, 2}, {1, 3}, {1, 4}});
        };
        auto dir = [&]() {
            V3 d(*uniform(-1, 1), *uniform(-1, 1), *uniform(-1, 1));
            if (d.norm() < 1e-3) d = V3(1, 0, 0);
            return d * (1 / d.norm());
        };
        std::ostringstream note;
        note << "arr" << arr << " n" << n << " lvl" << level;
        if (arr == 2) {
            // big ECM shell containing the others
            CellDesc e;
            e.cls = 1;
            e.mesh = ball(std::min(level + 1, 3), R * 3.2, V3(0, 0, 0));
            t.cells.push_back(e);
        }
        for (int i = 0; i < n; i++) {
            double r = R * (*uniform(0.6, 1.2));
            V3 c;
            if (i == 0) c = V3(0, 0, 0);
            else if (arr == 4) c = centers.back() + dir() * ((radii.back() + r) * (*uniform(1.6, 3.0)));
            else {
                int anchor = arr == 0 ? i - 1 : *irange(0, i - 1);
                double f = *rc::gen::element(0.75, 0.9, 0.97, 1.0, 1.03, 1.15);  // overlapping .. touching .. near
                c = centers[anchor] + dir() * ((radii[anchor] + r) * f);
            }
            if (arr == 2) {
                // keep inside the shell (some poke through: "escaped" nodes)
                ld lim = R * 3.2 - r * (*rc::gen::element(1.1, 0.9, 0.6));
                if (c.norm() > lim) c = c * (lim / c.norm());
            }
            CellDesc cd;
            cd.cls = cls_gen();
            if (arr == 2 && cd.cls == 1) cd.cls = 0;
            cd.mesh = ball(level, r, c, *uniform(0.85, 1.15), *uniform(0.85, 1.15), 1.0);
            centers.push_back(c);
            radii.push_back(r);
            t.cells.push_back(cd);
            if (arr == 3 && i == 0) {
                // nucleus inside the first cell, sometimes poking out
                CellDesc nu;
                nu.cls = 3;
                double rn = r * (*uniform(0.35, 0.6));
                V3 cn = c + dir() * (r * (*rc::gen::element(0.0, 0.3, 0.55, 0.8)));
                nu.mesh = ball(std::max(1, level - 1), rn, cn);
                t.cells[t.cells.size() - 1].cls = 0;
                t.cells.push_back(nu);
            }
        }
        // typical edge length of an icosphere of this level and radius R
        TriMesh probe = ball(level, R, V3(0, 0, 0));
        ld mean = 0;
        for (size_t q = 0; q < probe.nt(); q++)
            for (int j = 0; j < 3; j++) mean += (probe.p(probe.tri[3 * q + j]) - probe.p(probe.tri[3 * q + (j + 1) % 3])).norm();
        t.edge = (double)(mean / (3 * probe.nt())) * scale;
        // placement of the whole tissue
        mg::Placement pl;
        if (placements) {
            pl = *mg::genPlacement(false);
            pl.scale = scale;
            static const double MAG[] = {0, 1.3, 10, 100, 1000};
            for (double& v : pl.t) v = (*uniform(-1, 1)) * MAG[pl.mag_class] * scale * 3;
            note << " mag" << pl.mag_class << " scale" << scale;
        }
        for (auto& c : t.cells) c.mesh = mg::place(c.mesh, pl);
        t.note = note.str();
        return t;
    });
}

struct Built {
    std::vector<cell_ptr> cells;
    std::vector<std::shared_ptr<cell_type_parameters>> types;  // one per class used
};

// face-type / cell-type parameters per class; n_face_types chosen so that the polarisation code of every
// contact model has the face types it indexes (3)
inline std::shared_ptr<cell_type_parameters> class_type(int cls, double repulsion, double adhesion) {
    auto t = ct::default_cell_type(3);
    t->global_type_id_ = (short)cls;
    static const char* N[] = {"epithelial", "ecm", "lumen", "nucleus", "static"};
    t->name_ = N[cls];
    static const short gid[5][3] = {{0, 1, 2}, {3, 3, 3}, {4, 4, 4}, {5, 5, 5}, {6, 6, 6}};
    for (int i = 0; i < 3; i++) {
        t->face_types_[i].face_type_global_id_ = gid[cls][i];
        t->face_types_[i].repulsion_strength_ = repulsion * (1 + 0.25 * i + 0.1 * cls);
        t->face_types_[i].adherence_strength_ = adhesion * (1 + 0.5 * i);
    }
    return t;
}

inline Built build(const Tissue& t, double repulsion = 10., double adhesion = 1., ct::CellScope* scope = nullptr) {
    Built b;
    std::map<int, std::shared_ptr<cell_type_parameters>> types;
    uint64_t id_state = 0;
    unsigned id_next = 0;
    for (size_t i = 0; i < t.cells.size(); i++) {
        int cls = t.cells[i].cls;
        if (!types.count(cls)) types[cls] = class_type(cls, repulsion, adhesion);
        // persistent ids: in a run they only equal the positions in the list until the first removal or division; afterwards they are larger
        // (fresh ids are handed out in increasing order and removals keep the order). Two thirds of the tissues get such ids, derived from
        // the content of the case so that case files need no extra field.
        if (i == 0) {
            uint64_t h = 1469598103934665603ull;
            for (size_t q = 0; q < t.cells[0].mesh.xyz.size() && q < 6; q++) {
                uint64_t b;
                memcpy(&b, &t.cells[0].mesh.xyz[q], 8);
                h = (h ^ b) * 1099511628211ull;
            }
            id_state = h ^ (h >> 31);
            id_next = (id_state % 3 == 0) ? 0 : (unsigned)((id_state >> 8) % 5);
        } else if (id_state % 3 != 0) {
            id_state = id_state * 6364136223846793005ull + 1442695040888963407ull;
            id_next += (unsigned)((id_state >> 40) % 3);
        }
        cell_ptr c = ct::make_cell_of_class(cls, t.cells[i].mesh, id_next++, types[cls]);
        c->set_local_id((unsigned)i);
        b.cells.push_back(c);
        if (scope) scope->add(c);
    }
    for (auto& kv : types) b.types.push_back(kv.second);
    return b;
}

// deep copy of a population (faces of the copy point to the copy)
inline std::vector<cell_ptr> clone(const std::vector<cell_ptr>& in, ct::CellScope* scope = nullptr) {
    std::vector<cell_ptr> out;
    for (auto& c : in) {
        cell_ptr d;
        if (auto p = std::dynamic_pointer_cast<epithelial_cell>(c)) d = std::make_shared<epithelial_cell>(*p);
        else if (auto p = std::dynamic_pointer_cast<ecm_cell>(c)) d = std::make_shared<ecm_cell>(*p);
        else if (auto p = std::dynamic_pointer_cast<lumen_cell>(c)) d = std::make_shared<lumen_cell>(*p);
        else if (auto p = std::dynamic_pointer_cast<nucleus_cell>(c)) d = std::make_shared<nucleus_cell>(*p);
        else if (auto p = std::dynamic_pointer_cast<static_cell>(c)) d = std::make_shared<static_cell>(*p);
        d->set_face_owner_cell();
        out.push_back(d);
        if (scope) scope->add(d);
    }
    return out;
}

}  // namespace tg
