// Access to the internals of the code under test through the friend names the headers already declare
// (cell_tester, node_tester, face_tester, local_mesh_refiner_tester), plus the independent topological oracle.
#pragma once
#include <memory>
#include <sstream>
#include <typeinfo>

#include "local_mesh_refiner.hpp"
#include "geom.hpp"

#include "cell.hpp"
#include "ecm_cell.hpp"
#include "epithelial_cell.hpp"
#include "lumen_cell.hpp"
#include "nucleus_cell.hpp"
#include "static_cell.hpp"

class cell_tester {
  public:
    static std::vector<node>& nodes(cell& c) { return c.node_lst_; }
    static std::vector<face>& faces(cell& c) { return c.face_lst_; }
    static const std::vector<node>& nodes(const cell& c) { return c.node_lst_; }
    static const std::vector<face>& faces(const cell& c) { return c.face_lst_; }
    static edge_set& edges(cell& c) { return c.edge_set_; }
    static std::vector<unsigned>& free_nodes(cell& c) { return c.free_node_queue_; }
    static std::vector<unsigned>& free_faces(cell& c) { return c.free_face_queue_; }
    static double& area(cell& c) { return c.area_; }
    static double& volume(cell& c) { return c.volume_; }
    static double& pressure(cell& c) { return c.pressure_; }
    static double& target_volume(cell& c) { return c.target_volume_; }
    static double& target_area(cell& c) { return c.target_area_; }
    static double& growth_rate(cell& c) { return c.growth_rate_; }
    static double& division_volume(cell& c) { return c.division_volume_; }
    static bool& is_static(cell& c) { return c.is_static_; }
    static vec3& centroid(cell& c) { return c.centroid_; }
    static unsigned& cell_id(cell& c) { return c.cell_id_; }
    static unsigned& local_id(cell& c) { return c.local_id_; }
    static vec3& pos(node& n) { return n.pos_; }
    static vec3& force(node& n) { return n.force_; }
#if DYNAMIC_MODEL_INDEX == 0
    static vec3& momentum(node& n) { return n.momentum_; }
#endif
    static bool node_used(const node& n) { return n.is_used_; }
    static unsigned node_slot_id(const node& n) { return n.node_id_; }
#if CONTACT_MODEL_INDEX == 1 || CONTACT_MODEL_INDEX == 2
    static vec3& normal(node& n) { return n.normal_; }
    static double& curvature(node& n) { return n.curvature_; }
#endif
#if CONTACT_MODEL_INDEX == 1
    static std::optional<std::pair<unsigned, unsigned>>& coupled(node& n) { return n.coupled_node_; }
    static const std::optional<std::pair<unsigned, unsigned>>& coupled(const node& n) { return n.coupled_node_; }
    static double& coupled_d2(node& n) { return n.squared_distance_to_closest_node_; }
#elif CONTACT_MODEL_INDEX == 2
    static std::map<unsigned, std::pair<unsigned, double>>& coupled_map(node& n) { return n.coupled_nodes_map_; }
    static const std::map<unsigned, std::pair<unsigned, double>>& coupled_map(const node& n) { return n.coupled_nodes_map_; }
#endif
    static bool face_used(const face& f) { return f.is_used_; }
    static std::array<unsigned, 3> face_ids(const face& f) { return {f.n1_id_, f.n2_id_, f.n3_id_}; }
    static unsigned face_slot_id(const face& f) { return f.local_face_id_; }
    static unsigned& face_global_id(face& f) { return f.global_face_id_; }
    static unsigned short& face_type(face& f) { return f.type_id_; }
    static unsigned short face_type(const face& f) { return f.type_id_; }
    static const cell* face_owner(const face& f) { return f.owner_cell_.get(); }
    static const vec3& face_normal(const face& f) { return f.normal_; }
    static double face_area(const face& f) { return f.area_; }

    static void update_target_volume(cell& c, double dt) { c.update_target_volume(dt); }
    static void apply_pressure(cell& c) { c.apply_pressure_on_surface(); }
    static void apply_tension(cell& c) { c.apply_surface_tension_and_membrane_elasticity(); }
    static void apply_bending(cell& c) { c.apply_bending_forces(); }
    static void translate(cell& c, const vec3& t) { c.translate(t); }
};

namespace ct {
using vg::ld;
using vg::TriMesh;
using vg::V3;

inline V3 to_v3(const vec3& v) { return V3(v.dx(), v.dy(), v.dz()); }
inline vec3 to_vec3(const V3& v) { return vec3((double)v.x, (double)v.y, (double)v.z); }

// live triangle list of a cell: (n1,n2,n3,slot)
inline std::vector<std::array<unsigned, 4>> live_triangles(const cell& c) {
    std::vector<std::array<unsigned, 4>> t;
    const auto& fl = cell_tester::faces(c);
    for (unsigned i = 0; i < fl.size(); i++)
        if (cell_tester::face_used(fl[i])) {
            auto ids = cell_tester::face_ids(fl[i]);
            t.push_back({ids[0], ids[1], ids[2], i});
        }
    return t;
}

// the cell's surface as an independent TriMesh (slots kept: dead nodes stay in xyz but are unreferenced)
inline TriMesh snapshot(const cell& c) {
    TriMesh m;
    for (const node& n : cell_tester::nodes(c)) {
        m.xyz.push_back(n.pos().dx());
        m.xyz.push_back(n.pos().dy());
        m.xyz.push_back(n.pos().dz());
    }
    for (auto& t : live_triangles(c)) {
        m.tri.push_back(t[0]);
        m.tri.push_back(t[1]);
        m.tri.push_back(t[2]);
    }
    return m;
}

// Real refinement operations (edge collapses and splits through the public local_mesh_refiner) that leave the cell in the state most
// cells of a running simulation are in: unused node and face slots in the middle of its lists (the solver only compacts a cell when a
// mesh file is written or the cell divides).  Returns the number of operations performed.
inline int leave_free_slots(const cell_ptr& c, int ops, uint64_t seed) {
    if (!c || c->get_nb_of_faces() < 20 || ops <= 0) return 0;
    // band chosen so that every edge may be collapsed or split: the operations are driven directly, not by lengths
    local_mesh_refiner lmr(1.0, 3.0, true);
    int done = 0;
    for (int o = 0; o < ops; o++) {
        std::vector<edge> es(c->get_edge_set().begin(), c->get_edge_set().end());
        if (es.empty()) break;
        std::sort(es.begin(), es.end(), [](const edge& a, const edge& b) { return std::make_pair(a.n1(), a.n2()) < std::make_pair(b.n1(), b.n2()); });
        seed = seed * 6364136223846793005ull + 1442695040888963407ull;
        edge e = es[(size_t)((seed >> 33) % es.size())];
        edge_set scratch;
        try {
            // collapses first (they free slots); a split afterwards recycles some of them so that holes sit at arbitrary places
            if (o % 3 != 2) {
                if (c->get_nb_of_faces() >= 20 && lmr.can_be_merged(e, c)) lmr.merge_edge(e, c, scratch), done++;
            } else {
                lmr.split_edge(e, c, scratch), done++;
            }
        } catch (const std::exception&) {
            break;
        }
    }
    c->update_all_face_normals_and_areas();
    return done;
}

struct TopoOpts {
    bool check_cached_normals = true;   // cached normal . winding normal > 0
    bool check_positive_volume = true;  // signed volume about the mesh centre > 0
    bool check_owner = true;
    bool check_edge_set = true;
    bool check_face_types = true;
    const std::set<unsigned>* normal_slots = nullptr;  // if set: cached normals are only checked on these face slots
};

// Independent check of everything C01 states.  Returns "" or the first discrepancy.
inline std::string topo_check(cell& c, const TopoOpts& o = TopoOpts()) {
    std::ostringstream os;
    const auto& nl = cell_tester::nodes(c);
    const auto& fl = cell_tester::faces(c);
    auto tris = live_triangles(c);
    for (auto& t : tris)
        for (int k = 0; k < 3; k++) {
            if (t[k] >= nl.size()) {
                os << "face " << t[3] << " refers to node " << t[k] << " >= node slots " << nl.size();
                return os.str();
            }
            if (!cell_tester::node_used(nl[t[k]])) {
                os << "live face " << t[3] << " refers to dead node " << t[k];
                return os.str();
            }
        }
    vg::TopoReport r = vg::check_triangles(tris);
    if (!r.ok) return "triangle list: " + r.why;
    // every live node referenced
    std::vector<char> ref(nl.size(), 0);
    for (auto& t : tris) ref[t[0]] = ref[t[1]] = ref[t[2]] = 1;
    size_t live_nodes = 0;
    for (unsigned i = 0; i < nl.size(); i++) {
        if (cell_tester::node_used(nl[i])) {
            live_nodes++;
            if (!ref[i]) {
                os << "live node " << i << " is not referenced by any live face";
                return os.str();
            }
            if (cell_tester::node_slot_id(nl[i]) != i) {
                os << "node in slot " << i << " carries id " << cell_tester::node_slot_id(nl[i]);
                return os.str();
            }
        }
    }
    for (unsigned i = 0; i < fl.size(); i++)
        if (cell_tester::face_used(fl[i]) && cell_tester::face_slot_id(fl[i]) != i) {
            os << "face in slot " << i << " carries id " << cell_tester::face_slot_id(fl[i]);
            return os.str();
        }
    if (c.get_nb_of_nodes() != live_nodes) {
        os << "get_nb_of_nodes()=" << c.get_nb_of_nodes() << " but " << live_nodes << " live nodes";
        return os.str();
    }
    if (c.get_nb_of_faces() != tris.size()) {
        os << "get_nb_of_faces()=" << c.get_nb_of_faces() << " but " << tris.size() << " live faces";
        return os.str();
    }
    // free queues = dead slots, no duplicates
    {
        std::set<unsigned> fq(cell_tester::free_nodes(c).begin(), cell_tester::free_nodes(c).end());
        if (fq.size() != cell_tester::free_nodes(c).size()) return "free node queue has duplicates";
        for (unsigned i = 0; i < nl.size(); i++)
            if (cell_tester::node_used(nl[i]) == (fq.count(i) > 0)) {
                os << "node slot " << i << (fq.count(i) ? " is live but in the free queue" : " is dead but not in the free queue");
                return os.str();
            }
        for (unsigned i : fq)
            if (i >= nl.size()) return "free node queue refers to a slot out of range";
        std::set<unsigned> ff(cell_tester::free_faces(c).begin(), cell_tester::free_faces(c).end());
        if (ff.size() != cell_tester::free_faces(c).size()) return "free face queue has duplicates";
        for (unsigned i = 0; i < fl.size(); i++)
            if (cell_tester::face_used(fl[i]) == (ff.count(i) > 0)) {
                os << "face slot " << i << (ff.count(i) ? " is live but in the free queue" : " is dead but not in the free queue");
                return os.str();
            }
        for (unsigned i : ff)
            if (i >= fl.size()) return "free face queue refers to a slot out of range";
    }
    if (o.check_edge_set) {
        const edge_set& es = cell_tester::edges(c);
        if ((long)es.size() != r.E) {
            os << "edge set has " << es.size() << " edges, triangle list has " << r.E;
            return os.str();
        }
        for (const edge& e : es) {
            if (!e.is_manifold()) {
                os << "edge " << e.n1() << "-" << e.n2() << " of the edge set has fewer than two faces";
                return os.str();
            }
            auto d1 = r.dir.find({e.n1(), e.n2()}), d2 = r.dir.find({e.n2(), e.n1()});
            if (d1 == r.dir.end() || d2 == r.dir.end()) {
                os << "edge set contains " << e.n1() << "-" << e.n2() << " which no live triangle has";
                return os.str();
            }
            unsigned fa = d1->second[0], fb = d2->second[0];
            if (!((e.f1() == fa && e.f2() == fb) || (e.f1() == fb && e.f2() == fa))) {
                os << "edge " << e.n1() << "-" << e.n2() << " stores faces (" << e.f1() << "," << e.f2() << ") but the triangles are ("
                   << fa << "," << fb << ")";
                return os.str();
            }
        }
    }
    if (o.check_owner)
        for (auto& t : tris)
            if (cell_tester::face_owner(fl[t[3]]) != &c) {
                os << "face " << t[3] << " owner is not its cell";
                return os.str();
            }
    if (o.check_face_types && c.get_cell_type())
        for (auto& t : tris)
            if (cell_tester::face_type(fl[t[3]]) >= c.get_cell_type()->face_types_.size()) {
                os << "face " << t[3] << " has type index " << cell_tester::face_type(fl[t[3]]) << " >= "
                   << c.get_cell_type()->face_types_.size();
                return os.str();
            }
    TriMesh m = snapshot(c);
    if (o.check_cached_normals) {
        for (auto& t : tris) {
            if (o.normal_slots && !o.normal_slots->count(t[3])) continue;
            V3 a = m.p(t[0]), b = m.p(t[1]), cc = m.p(t[2]);
            V3 wn = (b - a).cross(cc - a);
            ld len = wn.norm();
            ld L = std::max((b - a).norm(), std::max((cc - a).norm(), (cc - b).norm()));
            if (!(len > 1e-9 * L * L)) continue;  // degenerate: no defined side
            V3 cn = to_v3(cell_tester::face_normal(fl[t[3]]));
            if (!(cn.dot(wn) > 0)) {
                os << "face " << t[3] << " cached normal (" << (double)cn.x << "," << (double)cn.y << "," << (double)cn.z
                   << ") points to the other side than its winding (" << (double)(wn.x / len) << "," << (double)(wn.y / len) << ","
                   << (double)(wn.z / len) << ")";
                return os.str();
            }
        }
    }
    if (o.check_positive_volume) {
        // reference point: mean of live nodes
        V3 ref;
        for (unsigned i = 0; i < nl.size(); i++)
            if (cell_tester::node_used(nl[i])) ref = ref + m.p(i);
        ref = ref * ((ld)1 / live_nodes);
        ld v = vg::signed_volume(m, ref);
        if (!(v > 0)) {
            os << "signed enclosed volume " << (double)v << " is not positive (surface inside-out or degenerate)";
            return os.str();
        }
    }
    return "";
}

// face::owner_cell_ <-> cell is a shared_ptr cycle; engines run many thousands of cases per process, so every
// cell created for a case is emptied when the case ends.
struct CellScope {
    std::vector<cell_ptr> cells;
    void add(const cell_ptr& c) { cells.push_back(c); }
    void add(const std::vector<cell_ptr>& v) { cells.insert(cells.end(), v.begin(), v.end()); }
    ~CellScope() {
        for (auto& c : cells)
            if (c) c->clear_data();
    }
};

inline std::shared_ptr<cell_type_parameters> default_cell_type(int n_face_types = 2) {
    auto t = std::make_shared<cell_type_parameters>();
    t->name_ = "epithelial";
    t->global_type_id_ = 0;
    t->mass_density_ = 1.0;
    t->bulk_modulus_ = 1.0;
    t->max_pressure_ = std::numeric_limits<double>::infinity();
    t->avg_division_vol_ = std::numeric_limits<double>::infinity();
    t->min_vol_ = 0.;
    t->target_isoperimetric_ratio_ = 150.;
    t->surface_coupling_max_curvature_ = std::numeric_limits<double>::infinity();
    for (int i = 0; i < n_face_types; i++) {
        face_type_parameters f;
        f.name_ = "ft" + std::to_string(i);
        f.face_type_global_id_ = (short)i;
        f.surface_tension_ = 1.0;
        f.adherence_strength_ = 0.;
        f.repulsion_strength_ = 1.0;
        f.bending_modulus_ = 0.;
        t->add_face_type(f);
    }
    return t;
}

template <class CellT = epithelial_cell>
inline std::shared_ptr<CellT> make_cell(const TriMesh& m, unsigned id, cell_type_param_ptr type, bool init = true) {
    auto c = std::make_shared<CellT>(m.xyz, m.tri, id, type);
    if (init) c->initialize_cell_properties();
    return c;
}

// cell class by index: 0 epithelial, 1 ecm, 2 lumen, 3 nucleus, 4 static (matches global_type_id convention of the repo)
inline cell_ptr make_cell_of_class(int cls, const TriMesh& m, unsigned id, cell_type_param_ptr type, bool init = true) {
    switch (cls) {
        case 0: return make_cell<epithelial_cell>(m, id, type, init);
        case 1: return make_cell<ecm_cell>(m, id, type, init);
        case 2: return make_cell<lumen_cell>(m, id, type, init);
        case 3: return make_cell<nucleus_cell>(m, id, type, init);
        default: return make_cell<static_cell>(m, id, type, init);
    }
}

}  // namespace ct
