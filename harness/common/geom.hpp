// Independent geometry used by the oracles.  Nothing here calls into the code under test.
#pragma once
#include <algorithm>
#include <array>
#include <cmath>
#include <cstdint>
#include <limits>
#include <map>
#include <set>
#include <vector>

namespace vg {

typedef long double ld;
static const double EPS = std::numeric_limits<double>::epsilon();

struct V3 {
    ld x = 0, y = 0, z = 0;
    V3() {}
    V3(ld a, ld b, ld c) : x(a), y(b), z(c) {}
    V3 operator+(const V3& o) const { return {x + o.x, y + o.y, z + o.z}; }
    V3 operator-(const V3& o) const { return {x - o.x, y - o.y, z - o.z}; }
    V3 operator*(ld s) const { return {x * s, y * s, z * s}; }
    ld dot(const V3& o) const { return x * o.x + y * o.y + z * o.z; }
    V3 cross(const V3& o) const { return {y * o.z - z * o.y, z * o.x - x * o.z, x * o.y - y * o.x}; }
    ld n2() const { return x * x + y * y + z * z; }
    ld norm() const { return sqrtl(n2()); }
    ld maxabs() const { return std::max(fabsl(x), std::max(fabsl(y), fabsl(z))); }
};

struct Quat {  // unit quaternion (w,x,y,z)
    ld w = 1, x = 0, y = 0, z = 0;
    static Quat from(double a, double b, double c, double d) {
        ld n = sqrtl((ld)a * a + (ld)b * b + (ld)c * c + (ld)d * d);
        Quat q;
        if (n < 1e-6) return q;
        q.w = a / n;
        q.x = b / n;
        q.y = c / n;
        q.z = d / n;
        return q;
    }
    V3 rot(const V3& v) const {
        // v' = v + 2w (u x v) + 2 u x (u x v)
        V3 u(x, y, z);
        V3 t = u.cross(v) * 2;
        return v + t * w + u.cross(t);
    }
};

// Rigid motion + uniform scale applied to double coordinates (result rounded to double, as an input file would be)
struct Motion {
    Quat q;
    V3 t;
    ld scale = 1;
    V3 apply(const V3& v) const { return q.rot(v * scale) + t; }
    std::array<double, 3> applyd(double x, double y, double z) const {
        V3 r = apply(V3(x, y, z));
        return {(double)r.x, (double)r.y, (double)r.z};
    }
};

// ---- closest point on a triangle, feature brute force (independent of Ericson's region walk) -------------
inline V3 closest_on_segment(const V3& p, const V3& a, const V3& b) {
    V3 ab = b - a;
    ld l2 = ab.n2();
    if (l2 == 0) return a;
    ld t = (p - a).dot(ab) / l2;
    t = std::max((ld)0, std::min((ld)1, t));
    return a + ab * t;
}

struct Closest {
    V3 q;
    ld d2;
    int feature;  // 0 interior, 1..3 edges AB,BC,CA (incl. their end points)
};

inline Closest closest_on_triangle(const V3& p0, const V3& a0, const V3& b0, const V3& c0) {
    // work relative to the triangle centroid to avoid cancellation far from the origin
    V3 g = (a0 + b0 + c0) * ((ld)1 / 3);
    V3 p = p0 - g, a = a0 - g, b = b0 - g, c = c0 - g;
    V3 ab = b - a, ac = c - a, n = ab.cross(ac);
    Closest best;
    best.d2 = std::numeric_limits<ld>::infinity();
    best.feature = -1;
    ld nn = n.n2();
    if (nn > 0) {
        // orthogonal projection on the plane, then barycentric test
        ld t = (p - a).dot(n) / nn;
        V3 pr = p - n * t;
        V3 ap = pr - a;
        ld d00 = ab.dot(ab), d01 = ab.dot(ac), d11 = ac.dot(ac), d20 = ap.dot(ab), d21 = ap.dot(ac);
        ld den = d00 * d11 - d01 * d01;
        if (den != 0) {
            ld v = (d11 * d20 - d01 * d21) / den, w = (d00 * d21 - d01 * d20) / den, u = 1 - v - w;
            if (u >= 0 && v >= 0 && w >= 0) {
                best.q = pr;
                best.d2 = (p - pr).n2();
                best.feature = 0;
            }
        }
    }
    const V3 e[3][2] = {{a, b}, {b, c}, {c, a}};
    for (int i = 0; i < 3; i++) {
        V3 q = closest_on_segment(p, e[i][0], e[i][1]);
        ld d2 = (p - q).n2();
        if (d2 < best.d2) {
            best.d2 = d2;
            best.q = q;
            best.feature = i + 1;
        }
    }
    best.q = best.q + g;
    return best;
}

// ---- closed triangle meshes (flat arrays: xyz per node, 3 ids per triangle) -------------------------------
struct TriMesh {
    std::vector<double> xyz;
    std::vector<unsigned> tri;
    size_t nn() const { return xyz.size() / 3; }
    size_t nt() const { return tri.size() / 3; }
    V3 p(unsigned i) const { return V3(xyz[3 * i], xyz[3 * i + 1], xyz[3 * i + 2]); }
};

inline V3 vertex_mean(const TriMesh& m) {
    V3 s;
    for (size_t i = 0; i < m.nn(); i++) s = s + m.p(i);
    return m.nn() ? s * ((ld)1 / m.nn()) : s;
}

// signed volume about a reference point close to the mesh (sum a.(b x c)/6)
inline ld signed_volume(const TriMesh& m, const V3& ref) {
    ld v = 0;
    for (size_t t = 0; t < m.nt(); t++) {
        V3 a = m.p(m.tri[3 * t]) - ref, b = m.p(m.tri[3 * t + 1]) - ref, c = m.p(m.tri[3 * t + 2]) - ref;
        v += a.dot(b.cross(c));
    }
    return v / 6;
}
inline ld signed_volume(const TriMesh& m) { return signed_volume(m, vertex_mean(m)); }

inline ld tri_area(const V3& a, const V3& b, const V3& c) { return (b - a).cross(c - a).norm() / 2; }

inline ld area(const TriMesh& m) {
    ld s = 0;
    for (size_t t = 0; t < m.nt(); t++) s += tri_area(m.p(m.tri[3 * t]), m.p(m.tri[3 * t + 1]), m.p(m.tri[3 * t + 2]));
    return s;
}

inline V3 area_centroid(const TriMesh& m) {
    V3 ref = vertex_mean(m), s;
    ld A = 0;
    for (size_t t = 0; t < m.nt(); t++) {
        V3 a = m.p(m.tri[3 * t]) - ref, b = m.p(m.tri[3 * t + 1]) - ref, c = m.p(m.tri[3 * t + 2]) - ref;
        ld ar = tri_area(a, b, c);
        s = s + (a + b + c) * (ar / 3);
        A += ar;
    }
    return A > 0 ? s * (1 / A) + ref : ref;
}

inline std::array<double, 6> aabb(const TriMesh& m) {
    double inf = std::numeric_limits<double>::infinity();
    std::array<double, 6> b = {inf, inf, inf, -inf, -inf, -inf};
    std::vector<bool> used(m.nn(), false);
    for (unsigned id : m.tri) used[id] = true;
    for (size_t i = 0; i < m.nn(); i++)
        if (used[i])
            for (int k = 0; k < 3; k++) {
                b[k] = std::min(b[k], m.xyz[3 * i + k]);
                b[3 + k] = std::max(b[3 + k], m.xyz[3 * i + k]);
            }
    return b;
}

inline ld mesh_size(const TriMesh& m) {  // diagonal of the bounding box
    auto b = aabb(m);
    return V3(b[3] - b[0], b[4] - b[1], b[5] - b[2]).norm();
}

inline ld dist_from_origin(const TriMesh& m) { return vertex_mean(m).norm(); }

inline ld min_edge(const TriMesh& m) {
    ld best = std::numeric_limits<ld>::infinity();
    for (size_t t = 0; t < m.nt(); t++)
        for (int k = 0; k < 3; k++) best = std::min(best, (m.p(m.tri[3 * t + k]) - m.p(m.tri[3 * t + (k + 1) % 3])).norm());
    return best;
}
inline ld max_edge(const TriMesh& m) {
    ld best = 0;
    for (size_t t = 0; t < m.nt(); t++)
        for (int k = 0; k < 3; k++) best = std::max(best, (m.p(m.tri[3 * t + k]) - m.p(m.tri[3 * t + (k + 1) % 3])).norm());
    return best;
}

// distance from a point to the surface of a mesh (brute force)
inline ld dist_to_surface(const TriMesh& m, const V3& p) {
    ld best = std::numeric_limits<ld>::infinity();
    for (size_t t = 0; t < m.nt(); t++) {
        Closest c = closest_on_triangle(p, m.p(m.tri[3 * t]), m.p(m.tri[3 * t + 1]), m.p(m.tri[3 * t + 2]));
        best = std::min(best, c.d2);
    }
    return sqrtl(best);
}

// ---- purely combinatorial check of a triangle list ------------------------------------------------------
struct TopoReport {
    bool ok = true;
    std::string why;
    long V = 0, E = 0, F = 0;
    std::map<std::pair<unsigned, unsigned>, std::vector<unsigned>> dir;  // directed edge -> triangles
    void fail(const std::string& s) {
        if (ok) why = s;
        ok = false;
    }
};

// tri: list of (n1,n2,n3, face slot id); checks closed, consistently oriented, genus 0, connected
inline TopoReport check_triangles(const std::vector<std::array<unsigned, 4>>& tris) {
    TopoReport r;
    std::set<unsigned> nodes;
    std::set<std::pair<unsigned, unsigned>> und;
    for (auto& t : tris) {
        if (t[0] == t[1] || t[1] == t[2] || t[0] == t[2]) r.fail("triangle " + std::to_string(t[3]) + " repeats a node");
        for (int k = 0; k < 3; k++) {
            unsigned a = t[k], b = t[(k + 1) % 3];
            nodes.insert(a);
            r.dir[{a, b}].push_back(t[3]);
            und.insert({std::min(a, b), std::max(a, b)});
        }
    }
    for (auto& kv : r.dir) {
        if (kv.second.size() != 1)
            r.fail("directed edge " + std::to_string(kv.first.first) + "->" + std::to_string(kv.first.second) + " used by " +
                   std::to_string(kv.second.size()) + " triangles (orientation inconsistent or non-manifold)");
        auto rev = r.dir.find({kv.first.second, kv.first.first});
        if (rev == r.dir.end())
            r.fail("edge " + std::to_string(kv.first.first) + "-" + std::to_string(kv.first.second) + " is a border edge (surface open)");
    }
    r.V = (long)nodes.size();
    r.E = (long)und.size();
    r.F = (long)tris.size();
    if (r.V - r.E + r.F != 2)
        r.fail("V-E+F = " + std::to_string(r.V - r.E + r.F) + " (V=" + std::to_string(r.V) + " E=" + std::to_string(r.E) +
               " F=" + std::to_string(r.F) + ")");
    // connectivity over triangles via shared undirected edges
    if (!tris.empty()) {
        std::map<unsigned, std::vector<unsigned>> adj;  // node -> nodes
        for (auto& e : und) {
            adj[e.first].push_back(e.second);
            adj[e.second].push_back(e.first);
        }
        std::set<unsigned> seen;
        std::vector<unsigned> st{*nodes.begin()};
        seen.insert(st[0]);
        while (!st.empty()) {
            unsigned n = st.back();
            st.pop_back();
            for (unsigned m : adj[n])
                if (seen.insert(m).second) st.push_back(m);
        }
        if (seen.size() != nodes.size()) r.fail("surface has more than one connected component");
    }
    return r;
}

}  // namespace vg
