// Construction-based generators of closed genus-0 triangle meshes (never rejection).
// All base shapes are star-shaped about the origin and wound outward; every later step keeps that
// (linear maps, radial bumps with |amplitude| < 0.45, small node noise), so "outward" has an oracle that is
// independent of the code under test: signed volume about the (transformed) centre must be positive.
#pragma once
#include <rapidcheck.h>

#include <numeric>
#include <sstream>

#include "engine.hpp"
#include "geom.hpp"

namespace mg {
using vg::ld;
using vg::TriMesh;
using vg::V3;

inline void add_tri(TriMesh& m, unsigned a, unsigned b, unsigned c) {
    m.tri.push_back(a);
    m.tri.push_back(b);
    m.tri.push_back(c);
}
inline unsigned add_node(TriMesh& m, ld x, ld y, ld z) {
    m.xyz.push_back((double)x);
    m.xyz.push_back((double)y);
    m.xyz.push_back((double)z);
    return (unsigned)(m.nn() - 1);
}

inline void orient_outward_about_origin(TriMesh& m) {
    for (size_t t = 0; t < m.nt(); t++) {
        V3 a = m.p(m.tri[3 * t]), b = m.p(m.tri[3 * t + 1]), c = m.p(m.tri[3 * t + 2]);
        if ((b - a).cross(c - a).dot(a + b + c) < 0) std::swap(m.tri[3 * t + 1], m.tri[3 * t + 2]);
    }
}

inline TriMesh tetrahedron() {
    TriMesh m;
    add_node(m, 1, 1, 1);
    add_node(m, 1, -1, -1);
    add_node(m, -1, 1, -1);
    add_node(m, -1, -1, 1);
    add_tri(m, 0, 1, 2);
    add_tri(m, 0, 3, 1);
    add_tri(m, 0, 2, 3);
    add_tri(m, 1, 3, 2);
    orient_outward_about_origin(m);
    return m;
}
inline TriMesh octahedron() {
    TriMesh m;
    add_node(m, 1, 0, 0);
    add_node(m, -1, 0, 0);
    add_node(m, 0, 1, 0);
    add_node(m, 0, -1, 0);
    add_node(m, 0, 0, 1);
    add_node(m, 0, 0, -1);
    const unsigned f[8][3] = {{0, 2, 4}, {2, 1, 4}, {1, 3, 4}, {3, 0, 4}, {2, 0, 5}, {1, 2, 5}, {3, 1, 5}, {0, 3, 5}};
    for (auto& t : f) add_tri(m, t[0], t[1], t[2]);
    orient_outward_about_origin(m);
    return m;
}
inline TriMesh cube() {
    TriMesh m;
    for (int i = 0; i < 8; i++) add_node(m, (i & 1) ? 1 : -1, (i & 2) ? 1 : -1, (i & 4) ? 1 : -1);
    const unsigned q[6][4] = {{0, 1, 3, 2}, {4, 6, 7, 5}, {0, 4, 5, 1}, {2, 3, 7, 6}, {0, 2, 6, 4}, {1, 5, 7, 3}};
    for (auto& f : q) {
        add_tri(m, f[0], f[1], f[2]);
        add_tri(m, f[0], f[2], f[3]);
    }
    orient_outward_about_origin(m);
    return m;
}
inline TriMesh icosahedron() {
    TriMesh m;
    const ld t = (1 + sqrtl(5.0L)) / 2;
    const ld v[12][3] = {{-1, t, 0}, {1, t, 0}, {-1, -t, 0}, {1, -t, 0}, {0, -1, t}, {0, 1, t},
                         {0, -1, -t}, {0, 1, -t}, {t, 0, -1}, {t, 0, 1}, {-t, 0, -1}, {-t, 0, 1}};
    for (auto& p : v) {
        ld n = sqrtl(p[0] * p[0] + p[1] * p[1] + p[2] * p[2]);
        add_node(m, p[0] / n, p[1] / n, p[2] / n);
    }
    const unsigned f[20][3] = {{0, 11, 5}, {0, 5, 1}, {0, 1, 7}, {0, 7, 10}, {0, 10, 11}, {1, 5, 9}, {5, 11, 4},
                               {11, 10, 2}, {10, 7, 6}, {7, 1, 8}, {3, 9, 4}, {3, 4, 2}, {3, 2, 6}, {3, 6, 8},
                               {3, 8, 9}, {4, 9, 5}, {2, 4, 11}, {6, 2, 10}, {8, 6, 7}, {9, 8, 1}};
    for (auto& t3 : f) add_tri(m, t3[0], t3[1], t3[2]);
    orient_outward_about_origin(m);
    return m;
}
// 1-to-4 subdivision; if sphere, project on the unit sphere
inline TriMesh subdivide4(const TriMesh& in, bool sphere) {
    TriMesh m;
    m.xyz = in.xyz;
    std::map<std::pair<unsigned, unsigned>, unsigned> mid;
    auto midpoint = [&](unsigned a, unsigned b) {
        auto key = std::make_pair(std::min(a, b), std::max(a, b));
        auto it = mid.find(key);
        if (it != mid.end()) return it->second;
        V3 p = (in.p(a) + in.p(b)) * 0.5L;
        if (sphere) p = p * (1 / p.norm());
        unsigned id = add_node(m, p.x, p.y, p.z);
        mid[key] = id;
        return id;
    };
    for (size_t t = 0; t < in.nt(); t++) {
        unsigned a = in.tri[3 * t], b = in.tri[3 * t + 1], c = in.tri[3 * t + 2];
        unsigned ab = midpoint(a, b), bc = midpoint(b, c), ca = midpoint(c, a);
        add_tri(m, a, ab, ca);
        add_tri(m, b, bc, ab);
        add_tri(m, c, ca, bc);
        add_tri(m, ab, bc, ca);
    }
    return m;
}
inline TriMesh icosphere(int level) {
    TriMesh m = icosahedron();
    for (int i = 0; i < level; i++) m = subdivide4(m, true);
    return m;
}
inline TriMesh bipyramid(int n) {
    TriMesh m;
    for (int i = 0; i < n; i++) add_node(m, cosl(2 * M_PIl * i / n), sinl(2 * M_PIl * i / n), 0);
    unsigned top = add_node(m, 0, 0, 1), bot = add_node(m, 0, 0, -1);
    for (int i = 0; i < n; i++) {
        add_tri(m, i, (i + 1) % n, top);
        add_tri(m, (i + 1) % n, i, bot);
    }
    orient_outward_about_origin(m);
    return m;
}
inline TriMesh prism(int n) {
    TriMesh m;
    for (int i = 0; i < n; i++) add_node(m, cosl(2 * M_PIl * i / n), sinl(2 * M_PIl * i / n), 0.7L);
    for (int i = 0; i < n; i++) add_node(m, cosl(2 * M_PIl * i / n), sinl(2 * M_PIl * i / n), -0.7L);
    unsigned top = add_node(m, 0, 0, 0.7L), bot = add_node(m, 0, 0, -0.7L);
    for (int i = 0; i < n; i++) {
        int j = (i + 1) % n;
        add_tri(m, i, j, top);
        add_tri(m, n + j, n + i, bot);
        add_tri(m, i, n + i, j);
        add_tri(m, j, n + i, n + j);
    }
    orient_outward_about_origin(m);
    return m;
}

// genus preserving local refinements
inline void split_face_1to3(TriMesh& m, size_t t) {
    unsigned a = m.tri[3 * t], b = m.tri[3 * t + 1], c = m.tri[3 * t + 2];
    V3 g = (m.p(a) + m.p(b) + m.p(c)) * (1 / 3.0L);
    unsigned n = add_node(m, g.x, g.y, g.z);
    m.tri[3 * t + 2] = n;  // a b n
    add_tri(m, b, c, n);
    add_tri(m, c, a, n);
}
inline void split_edge_of_face(TriMesh& m, size_t t, int k) {
    unsigned a = m.tri[3 * t + k], b = m.tri[3 * t + (k + 1) % 3], c = m.tri[3 * t + (k + 2) % 3];
    // find the other triangle with directed edge b->a
    for (size_t u = 0; u < m.nt(); u++)
        for (int j = 0; j < 3; j++)
            if (m.tri[3 * u + j] == b && m.tri[3 * u + (j + 1) % 3] == a) {
                unsigned d = m.tri[3 * u + (j + 2) % 3];
                V3 g = (m.p(a) + m.p(b)) * 0.5L;
                unsigned n = add_node(m, g.x, g.y, g.z);
                // t: a b c -> a n c , n b c ; u: b a d -> b n d , n a d
                m.tri[3 * t] = a, m.tri[3 * t + 1] = n, m.tri[3 * t + 2] = c;
                add_tri(m, n, b, c);
                m.tri[3 * u] = b, m.tri[3 * u + 1] = n, m.tri[3 * u + 2] = d;
                add_tri(m, n, a, d);
                return;
            }
}


// Connected sum along a triangle: triangle `ta` of `a` and triangle `tb` of `b` are removed and `b` is mapped affinely so that the two
// boundary triangles coincide (with opposite orientation) and `b` sits on the outer side of `a`, `height` times as tall as the face is
// wide. The result is again a closed, consistently oriented genus-0 surface; the three glued nodes form a cycle of edges that bounds
// no face (a "waist"), the configuration the edge-collapse / edge-swap guards of the refiner exist for.
inline TriMesh glue(const TriMesh& a, size_t ta, const TriMesh& b, size_t tb, double height) {
    const unsigned a0 = a.tri[3 * ta], a1 = a.tri[3 * ta + 1], a2 = a.tri[3 * ta + 2];
    const unsigned b0 = b.tri[3 * tb], b1 = b.tri[3 * tb + 1], b2 = b.tri[3 * tb + 2];
    V3 A0 = a.p(a0), nA = (a.p(a1) - A0).cross(a.p(a2) - A0), B0 = b.p(b0), nB = (b.p(b1) - B0).cross(b.p(b2) - B0);
    const ld la = sqrtl(nA.norm()), lb = sqrtl(nB.norm());
    if (!(la > 0) || !(lb > 0)) return a;
    // linear map M with M(b1-b0) = a2-a0, M(b2-b0) = a1-a0, M(-nB/|nB| * lb) = nA/|nA| * la * height
    V3 e1 = b.p(b1) - B0, e2 = b.p(b2) - B0, e3 = nB * (-lb / nB.norm());
    V3 f1 = a.p(a2) - A0, f2 = a.p(a1) - A0, f3 = nA * (la * height / nA.norm());
    // coordinates of a vector v in the basis (e1,e2,e3) through the dual basis
    const ld det = e1.dot(e2.cross(e3));
    V3 d1 = e2.cross(e3) * (1 / det), d2 = e3.cross(e1) * (1 / det), d3 = e1.cross(e2) * (1 / det);
    TriMesh m = a;
    m.tri.erase(m.tri.begin() + 3 * ta, m.tri.begin() + 3 * ta + 3);
    std::vector<unsigned> map(b.nn());
    for (size_t i = 0; i < b.nn(); i++) {
        if (i == b0) map[i] = a0;
        else if (i == b1) map[i] = a2;
        else if (i == b2) map[i] = a1;
        else {
            V3 v = b.p((unsigned)i) - B0;
            V3 q = A0 + f1 * v.dot(d1) + f2 * v.dot(d2) + f3 * v.dot(d3);
            map[i] = add_node(m, q.x, q.y, q.z);
        }
    }
    for (size_t t = 0; t < b.nt(); t++)
        if (t != tb) add_tri(m, map[b.tri[3 * t]], map[b.tri[3 * t + 1]], map[b.tri[3 * t + 2]]);
    return m;
}

struct LobeSpec {
    unsigned face = 0;  // index into the hub's not yet glued original faces
    int family = 0;     // 0 tetra 1 octa 2 icosphere(0) 3 bipyramid(3..5) 4 icosphere(1)
    int param = 3;
    double height = 1;
};
// hub with lobes glued on some of its original faces (two lobes on a tetrahedral hub give two waists sharing an edge)
inline TriMesh with_lobes(const TriMesh& hub, const std::vector<LobeSpec>& lobes) {
    TriMesh m = hub;
    std::vector<std::array<unsigned, 3>> avail;
    for (size_t t = 0; t < hub.nt(); t++) avail.push_back({hub.tri[3 * t], hub.tri[3 * t + 1], hub.tri[3 * t + 2]});
    for (auto& l : lobes) {
        if (avail.size() <= 1) break;
        const size_t pick = l.face % avail.size();
        auto key = avail[pick];
        avail.erase(avail.begin() + pick);
        size_t ta = m.nt();
        for (size_t t = 0; t < m.nt(); t++)
            if (m.tri[3 * t] == key[0] && m.tri[3 * t + 1] == key[1] && m.tri[3 * t + 2] == key[2]) ta = t;
        if (ta == m.nt()) continue;
        TriMesh lobe = l.family == 0 ? tetrahedron() : l.family == 1 ? octahedron() : l.family == 2 ? icosphere(0) : l.family == 3 ? bipyramid(std::max(3, l.param)) : icosphere(1);
        m = glue(m, ta, lobe, (size_t)l.param % lobe.nt(), l.height);
    }
    return m;
}
inline rc::Gen<std::vector<LobeSpec>> genLobes() {
    using namespace vf;
    return rc::gen::exec([]() {
        std::vector<LobeSpec> v;
        const int n = *rc::gen::element(1, 2, 2, 2, 3);
        for (int i = 0; i < n; i++) {
            LobeSpec l;
            l.face = (unsigned)*irange(0, 1000);
            l.family = *irange(0, 4);
            l.param = *irange(3, 5);
            l.height = *uniform(0.4, 1.8);
            v.push_back(l);
        }
        return v;
    });
}

struct ShapeSpec {
    int family = 0;      // 0 tetra 1 octa 2 cube 3 icosphere 4 bipyramid 5 prism
    int param = 0;       // icosphere level / n-gon
    std::vector<std::pair<unsigned, int>> refine;  // (face index mod nt, kind 0..3: 0 = 1-to-3, 1..3 = split edge k-1)
    double sx = 1, sy = 1, sz = 1, shear = 0;
    double bump_amp = 0;
    int bump_k = 2;
    double noise = 0;             // fraction of the shortest edge
    std::vector<double> noise_v;  // per coordinate in [-1,1], cycled
    std::string describe() const {
        static const char* F[] = {"tetra", "octa", "cube", "icosphere", "bipyramid", "prism"};
        std::ostringstream os;
        os << F[family] << "(" << param << ")+refine" << refine.size() << " scale(" << sx << "," << sy << "," << sz << ") shear "
           << shear << " bump " << bump_amp << " noise " << noise;
        return os.str();
    }
};

inline TriMesh build_shape(const ShapeSpec& s) {
    TriMesh m;
    switch (s.family) {
        case 0: m = tetrahedron(); break;
        case 1: m = octahedron(); break;
        case 2: m = cube(); break;
        case 3: m = icosphere(s.param); break;
        case 4: m = bipyramid(std::max(3, s.param)); break;
        default: m = prism(std::max(3, s.param)); break;
    }
    for (auto& r : s.refine) {
        size_t t = r.first % m.nt();
        if (r.second == 0) split_face_1to3(m, t);
        else split_edge_of_face(m, t, r.second - 1);
    }
    // radial bump (keeps star-shapedness), then linear map
    for (size_t i = 0; i < m.nn(); i++) {
        V3 p = m.p(i);
        ld r = p.norm();
        if (r > 0 && s.bump_amp != 0) {
            ld th = atan2l(p.y, p.x), ph = acosl(std::max((ld)-1, std::min((ld)1, p.z / r)));
            ld f = 1 + s.bump_amp * sinl(s.bump_k * th) * sinl(ph) * sinl(ph);
            p = p * f;
        }
        p = V3(p.x * s.sx + s.shear * p.y, p.y * s.sy, p.z * s.sz);
        m.xyz[3 * i] = (double)p.x, m.xyz[3 * i + 1] = (double)p.y, m.xyz[3 * i + 2] = (double)p.z;
    }
    if (s.noise > 0 && !s.noise_v.empty()) {
        ld h = vg::min_edge(m) * s.noise;
        for (size_t i = 0; i < m.xyz.size(); i++) m.xyz[i] += (double)(h * s.noise_v[i % s.noise_v.size()]);
    }
    return m;
}

// complexity: 0 tiny (4-30 tris), 1 small (<= 100), 2 medium (<= 400), 3 large (<= 1400)
inline rc::Gen<ShapeSpec> genShape(int max_complexity, bool allow_noise = true) {
    using namespace vf;
    return rc::gen::exec([=]() {
        ShapeSpec s;
        s.family = *irange(0, 5);
        int maxlvl = max_complexity >= 3 ? 3 : max_complexity >= 2 ? 2 : max_complexity >= 1 ? 1 : 0;
        if (s.family == 3) s.param = *irange(0, maxlvl);
        if (s.family == 4 || s.family == 5) s.param = *irange(3, max_complexity >= 1 ? 12 : 6);
        int nref = *irange(0, max_complexity >= 2 ? 12 : max_complexity >= 1 ? 6 : 3);
        for (int i = 0; i < nref; i++) s.refine.push_back({(unsigned)*irange(0, 100000), *irange(0, 3)});
        if (*irange(0, 3) != 0) {
            s.sx = *uniform(0.5, 2.0);
            s.sy = *uniform(0.5, 2.0);
            s.sz = *uniform(0.5, 2.0);
        }
        if (*irange(0, 2) == 0) s.shear = *uniform(-0.6, 0.6);
        if (*irange(0, 2) == 0) {
            s.bump_amp = *uniform(-0.4, 0.4);
            s.bump_k = *irange(1, 4);
        }
        if (allow_noise && *irange(0, 1) == 0) {
            s.noise = *uniform(0.0, 0.12);
            int n = *irange(3, 24);
            for (int i = 0; i < n; i++) s.noise_v.push_back(*uniform(-1, 1));
        }
        return s;
    });
}

struct Placement {
    double q[4] = {1, 0, 0, 0};
    double t[3] = {0, 0, 0};
    double scale = 1;
    int mag_class = 0;
    vg::Motion motion() const {
        vg::Motion m;
        m.q = vg::Quat::from(q[0], q[1], q[2], q[3]);
        m.t = V3(t[0], t[1], t[2]);
        m.scale = scale;
        return m;
    }
    void write(vf::Writer& w) const {
        for (double v : q) w.d(v);
        for (double v : t) w.d(v);
        w.d(scale);
        w.i(mag_class);
    }
    static Placement read(vf::Reader& r) {
        Placement p;
        for (double& v : p.q) v = r.d();
        for (double& v : p.t) v = r.d();
        p.scale = r.d();
        p.mag_class = (int)r.i();
        return p;
    }
};

// translation magnitude classes relative to the size: 0, ~1, 10, 100, 1000
inline rc::Gen<Placement> genPlacement(bool micro_scale_too = true) {
    using namespace vf;
    return rc::gen::exec([=]() {
        Placement p;
        if (*irange(0, 3) != 0) {
            p.q[0] = *uniform(-1, 1);
            p.q[1] = *uniform(-1, 1);
            p.q[2] = *uniform(-1, 1);
            p.q[3] = *uniform(-1, 1);
        }
        // the length unit is arbitrary: micrometres in metres are the shipped convention, nanometre features (face areas far below machine
        // epsilon) and kilometres are as admissible
        p.scale = micro_scale_too ? *rc::gen::element(1.0, 1.0, 1.0, 1e-6, 1e-6, 1e-5, 3.7, 250.0, 1e-8, 3e-9, 1e4) : *rc::gen::element(1.0, 1.0, 3.7, 0.21);
        p.mag_class = *irange(0, 4);
        static const double MAG[] = {0, 1.3, 10, 100, 1000};
        for (double& v : p.t) v = *uniform(-1, 1) * MAG[p.mag_class] * p.scale;
        return p;
    });
}

inline TriMesh place(const TriMesh& in, const Placement& pl) {
    TriMesh m = in;
    vg::Motion mo = pl.motion();
    for (size_t i = 0; i < m.nn(); i++) {
        auto r = mo.applyd(in.xyz[3 * i], in.xyz[3 * i + 1], in.xyz[3 * i + 2]);
        m.xyz[3 * i] = r[0], m.xyz[3 * i + 1] = r[1], m.xyz[3 * i + 2] = r[2];
    }
    return m;
}

// random renumbering of nodes and triangles (+ rotation of each triangle's start node); flips = per-triangle winding flips
inline TriMesh permute(const TriMesh& in, const std::vector<unsigned>& keys, bool flips) {
    TriMesh m;
    size_t nn = in.nn(), nt = in.nt();
    if (keys.empty()) return in;
    auto key = [&](size_t i) { return keys[i % keys.size()] * 2654435761u + (unsigned)i * 40503u; };
    std::vector<unsigned> np(nn), tp(nt);
    std::iota(np.begin(), np.end(), 0u);
    std::iota(tp.begin(), tp.end(), 0u);
    std::stable_sort(np.begin(), np.end(), [&](unsigned a, unsigned b) { return key(a) < key(b); });
    std::stable_sort(tp.begin(), tp.end(), [&](unsigned a, unsigned b) { return key(a + 7777) < key(b + 7777); });
    std::vector<unsigned> inv(nn);
    m.xyz.resize(in.xyz.size());
    for (size_t newi = 0; newi < nn; newi++) {
        inv[np[newi]] = (unsigned)newi;
        for (int k = 0; k < 3; k++) m.xyz[3 * newi + k] = in.xyz[3 * np[newi] + k];
    }
    for (size_t newt = 0; newt < nt; newt++) {
        size_t t = tp[newt];
        unsigned r = key(t + 31337) % 3;
        unsigned a = inv[in.tri[3 * t + r]], b = inv[in.tri[3 * t + (r + 1) % 3]], c = inv[in.tri[3 * t + (r + 2) % 3]];
        if (flips && (key(t + 999) >> 7) % 3 == 0) std::swap(b, c);
        add_tri(m, a, b, c);
    }
    return m;
}

inline void write_mesh(vf::Writer& w, const TriMesh& m) {
    w.vd(m.xyz);
    w.vu(m.tri);
}
inline TriMesh read_mesh(vf::Reader& r) {
    TriMesh m;
    m.xyz = r.vd();
    m.tri = r.vu();
    return m;
}

}  // namespace mg
