// Stepping a real solver from the harness: a subclass exposes the protected state; run_iteration() is the
// repository's own virtual, public iteration.
#pragma once
#include <unistd.h>

#include <filesystem>

#include "celltools.hpp"

#include "solver.hpp"

namespace sk {

inline std::string scratch_dir(const std::string& tag) {
    const char* base = getenv("VERIF_TMP");
    std::string d = std::string(base ? base : "/tmp") + "/" + tag + "_" + std::to_string(getpid());
    return d;
}

class test_solver : public solver {
  public:
    test_solver(const global_simulation_parameters& sp, const std::vector<cell_ptr>& cells, int threads, bool stats_in_string = true)
        : solver(sp, cells, threads, stats_in_string, false) {}
    std::vector<cell_ptr>& cells() { return cell_lst_; }
    unsigned iteration() const { return iteration_; }
    unsigned file_number() const { return file_number_; }
    unsigned max_cell_id() const { return max_cell_id_; }
    double time() const { return time_integrator_ptr_->get_simulation_time(); }
    const global_simulation_parameters& params() const { return sim_parameters_; }
    local_mesh_refiner& lmr() { return *lmr_ptr_; }
};

inline global_simulation_parameters basic_params(const std::string& out_dir, double edge) {
    global_simulation_parameters sp;
    sp.output_folder_path_ = out_dir;
    sp.input_mesh_path_ = "unused";
    sp.perform_initial_triangulation_ = false;
    sp.enable_edge_swap_operation_ = true;
    sp.damping_coefficient_ = 5.0;
    sp.simulation_duration_ = 1e9;
    sp.sampling_period_ = 1e9;
    sp.time_step_ = 1e-3;
    sp.min_edge_len_ = 0.5 * edge;
    sp.contact_cutoff_adhesion_ = 0.2 * edge;
    sp.contact_cutoff_repulsion_ = 0.2 * edge;
    return sp;
}

// scale a cell about its node mean (friend access) and refresh the cached geometry like the solver would see it
inline void scale_cell(cell& c, double f) {
    vg::V3 g;
    size_t n = 0;
    for (auto& nd : cell_tester::nodes(c))
        if (nd.is_used()) g = g + ct::to_v3(nd.pos()), n++;
    g = g * ((vg::ld)1 / n);
    for (auto& nd : cell_tester::nodes(c))
        if (nd.is_used()) {
            vg::V3 p = ct::to_v3(nd.pos());
            cell_tester::pos(nd) = ct::to_vec3(g + (p - g) * f);
#if DYNAMIC_MODEL_INDEX == 0
            cell_tester::momentum(nd).reset();
#endif
        }
    c.update_all_face_normals_and_areas();
    cell_tester::area(c) = c.compute_area();
    cell_tester::volume(c) = c.compute_volume();
}

}  // namespace sk
