// Rendering of SimuCell3D parameter files from value tables (used by C18, C19, C10, C17).
#pragma once
#include <map>
#include <sstream>
#include <string>
#include <vector>

namespace xg {

typedef std::vector<std::pair<std::string, std::string>> Tags;  // ordered (tag, text)

struct FaceTypeX {
    Tags tags;
};
struct CellTypeX {
    Tags tags;
    std::vector<FaceTypeX> faces;
};
struct ParamFile {
    Tags numerical;
    std::vector<CellTypeX> cell_types;
};

static const char* NUMERICAL_TAGS[] = {"input_mesh_file_path", "output_mesh_folder_path", "damping_coefficient", "perform_initial_triangulation",
                                       "simulation_duration", "time_step", "sampling_period", "min_edge_length", "contact_cutoff_adhesion",
                                       "contact_cutoff_repulsion", "enable_edge_swap_operation"};
static const char* CELL_TAGS[] = {"cell_type_name", "global_cell_id", "cell_mass_density", "cell_bulk_modulus", "max_inner_pressure",
                                  "area_elasticity_modulus", "avg_division_volume", "std_division_volume", "avg_growth_rate", "std_growth_rate",
                                  "target_isoperimetric_ratio", "angle_regularization_factor", "min_vol", "surface_coupling_max_curvature"};
static const char* FACE_TAGS[] = {"face_type_name", "global_face_id", "surface_tension", "adherence_strength", "repulsion_strength", "bending_modulus"};

inline std::string render_tags(const Tags& t, const std::string& indent, unsigned deco) {
    std::ostringstream o;
    unsigned k = deco;
    for (auto& kv : t) {
        k = k * 1103515245u + 12345u;
        if ((k >> 16) % 5 == 0) o << indent << "<!-- comment " << (k >> 8) % 97 << " -->\n";
        // whitespace padding only around numbers (it is part of the value of a text element such as a path)
        const bool numeric = !kv.second.empty() && (isdigit((unsigned char)kv.second[0]) || kv.second[0] == '-' || kv.second[0] == '+' || kv.second[0] == '.');
        const char* pad = (numeric && (k >> 20) % 3 == 0) ? " " : "";
        o << indent << "<" << kv.first << ">" << pad << kv.second << pad << "</" << kv.first << ">" << (((k >> 24) % 4 == 0) ? "\n\n" : "\n");
    }
    return o.str();
}

inline std::string render(const ParamFile& p, unsigned deco = 0) {
    std::ostringstream o;
    o << "<?xml version=\"1.0\" encoding=\"UTF-8\"?>\n<numerical_parameters>\n" << render_tags(p.numerical, "    ", deco) << "</numerical_parameters>\n\n<cell_types>\n";
    unsigned d = deco + 7;
    for (auto& c : p.cell_types) {
        o << "  <cell_type>\n" << render_tags(c.tags, "    ", d++) << "    <face_types>\n";
        for (auto& f : c.faces) o << "      <face_type>\n" << render_tags(f.tags, "        ", d++) << "      </face_type>\n";
        o << "    </face_types>\n  </cell_type>\n";
    }
    o << "</cell_types>\n";
    return o.str();
}

inline std::string* find(Tags& t, const std::string& name) {
    for (auto& kv : t)
        if (kv.first == name) return &kv.second;
    return nullptr;
}
inline const std::string* find(const Tags& t, const std::string& name) {
    for (auto& kv : t)
        if (kv.first == name) return &kv.second;
    return nullptr;
}
inline void erase(Tags& t, const std::string& name) {
    for (size_t i = 0; i < t.size(); i++)
        if (t[i].first == name) {
            t.erase(t.begin() + i);
            return;
        }
}

// a complete, valid default file (values are typical of the shipped parameter files)
inline ParamFile defaults(const std::string& mesh_path, const std::string& out_dir) {
    ParamFile p;
    p.numerical = {{"input_mesh_file_path", mesh_path}, {"output_mesh_folder_path", out_dir}, {"damping_coefficient", "2.0"},
                   {"perform_initial_triangulation", "0"}, {"simulation_duration", "1e-2"}, {"time_step", "1e-3"}, {"sampling_period", "2e-3"},
                   {"min_edge_length", "0.1"}, {"contact_cutoff_adhesion", "0.05"}, {"contact_cutoff_repulsion", "0.05"},
                   {"enable_edge_swap_operation", "1"}};
    CellTypeX c;
    c.tags = {{"cell_type_name", "epithelial"}, {"global_cell_id", "0"}, {"cell_mass_density", "1.0"}, {"cell_bulk_modulus", "10"},
              {"max_inner_pressure", "INF"}, {"area_elasticity_modulus", "0.1"}, {"avg_division_volume", "INF"}, {"std_division_volume", "0"},
              {"avg_growth_rate", "0"}, {"std_growth_rate", "0"}, {"target_isoperimetric_ratio", "150"}, {"angle_regularization_factor", "0"},
              {"min_vol", "1e-9"}, {"surface_coupling_max_curvature", "1e9"}};
    const char* names[] = {"apical", "lateral", "basal"};
    for (int i = 0; i < 3; i++) {
        FaceTypeX f;
        f.tags = {{"face_type_name", names[i]}, {"global_face_id", std::to_string(i)}, {"surface_tension", "1.0"}, {"adherence_strength", "1.0"},
                  {"repulsion_strength", "10"}, {"bending_modulus", "0"}};
        c.faces.push_back(f);
    }
    p.cell_types.push_back(c);
    return p;
}

}  // namespace xg
