// Independent, strict parser of the legacy-VTK files SimuCell3D writes (cell-data and face-data files).
// It checks every declared count against the content and returns the polyhedral cells.
#pragma once
#include <cstdlib>
#include <fstream>
#include <map>
#include <sstream>
#include <string>
#include <vector>

namespace vtkp {

struct Field {
    std::string name, type;
    long comps = 0, tuples = 0;
    std::vector<std::string> values;
};
struct Poly {
    std::vector<std::vector<long>> faces;  // global point ids
};
struct File {
    std::vector<double> points;            // xyz
    std::vector<std::string> point_tokens; // as written
    std::vector<Poly> cells;               // when CELL_TYPES are 42 (polyhedra)
    std::vector<std::vector<long>> tris;   // when CELL_TYPES are 7 (polygons): face-data file
    std::vector<int> cell_types;
    long cell_data_n = -1, point_data_n = -1;
    std::vector<Field> cell_fields, point_fields;
    std::string error;                     // empty when the file is well-formed
};

inline bool is_int(const std::string& s) {
    if (s.empty()) return false;
    size_t i = (s[0] == '-' || s[0] == '+') ? 1 : 0;
    if (i >= s.size()) return false;
    for (; i < s.size(); i++)
        if (s[i] < '0' || s[i] > '9') return false;
    return true;
}
inline bool is_num(const std::string& s) {
    if (s.empty()) return false;
    char* e = nullptr;
    strtod(s.c_str(), &e);
    return e && *e == 0;
}

inline File parse(const std::string& path) {
    File f;
    std::ifstream in(path);
    if (!in) {
        f.error = "cannot open " + path;
        return f;
    }
    std::stringstream ss;
    ss << in.rdbuf();
    std::string all = ss.str();
    // header: 4 lines
    std::istringstream ls(all);
    std::string l1, l2, l3, l4;
    std::getline(ls, l1), std::getline(ls, l2), std::getline(ls, l3), std::getline(ls, l4);
    if (l1.rfind("# vtk DataFile Version", 0) != 0) return f.error = "missing vtk header line", f;
    if (l3 != "ASCII") return f.error = "third line is not ASCII", f;
    if (l4 != "DATASET UNSTRUCTURED_GRID") return f.error = "dataset is not UNSTRUCTURED_GRID", f;
    std::vector<std::string> tok;
    {
        std::string t;
        while (ls >> t) tok.push_back(t);
    }
    size_t i = 0;
    auto need = [&](size_t n) { return i + n <= tok.size(); };
    auto err = [&](const std::string& m) {
        f.error = m + " (near token " + std::to_string(i) + (i < tok.size() ? " '" + tok[i] + "')" : " = end of file)");
        return f;
    };
    if (!need(3) || tok[i] != "POINTS") return err("POINTS section expected");
    if (!is_int(tok[i + 1])) return err("POINTS count is not an integer");
    long np = atol(tok[i + 1].c_str());
    if (tok[i + 2] != "float" && tok[i + 2] != "double") return err("POINTS type");
    i += 3;
    for (long k = 0; k < 3 * np; k++) {
        if (!need(1) || !is_num(tok[i])) return err("POINTS declares " + std::to_string(np) + " points but coordinate " + std::to_string(k) + " is missing or not a number");
        f.points.push_back(strtod(tok[i].c_str(), nullptr));
        f.point_tokens.push_back(tok[i]);
        i++;
    }
    if (!need(3) || tok[i] != "CELLS") return err("CELLS section expected right after the declared number of coordinates");
    if (!is_int(tok[i + 1]) || !is_int(tok[i + 2])) return err("CELLS counts are not integers");
    long nc = atol(tok[i + 1].c_str()), nints = atol(tok[i + 2].c_str());
    i += 3;
    // read until CELL_TYPES
    std::vector<long> ints;
    while (need(1) && tok[i] != "CELL_TYPES") {
        if (!is_int(tok[i])) return err("non-integer in CELLS section");
        ints.push_back(atol(tok[i].c_str()));
        i++;
    }
    if ((long)ints.size() != nints) return err("CELLS declares " + std::to_string(nints) + " integers but contains " + std::to_string(ints.size()));
    if (!need(2) || tok[i] != "CELL_TYPES" || !is_int(tok[i + 1])) return err("CELL_TYPES section expected");
    long nct = atol(tok[i + 1].c_str());
    i += 2;
    if (nct != nc) return err("CELL_TYPES count differs from CELLS count");
    for (long k = 0; k < nct; k++) {
        if (!need(1) || !is_int(tok[i])) return err("CELL_TYPES entry missing");
        f.cell_types.push_back(atoi(tok[i].c_str()));
        i++;
    }
    // decode the cells
    size_t p = 0;
    for (long c = 0; c < nc; c++) {
        if (p >= ints.size()) return err("CELLS section ends before cell " + std::to_string(c));
        long n = ints[p++];
        if (n < 0 || p + (size_t)n > ints.size()) return err("cell " + std::to_string(c) + " declares more integers than the section holds");
        size_t end = p + (size_t)n;
        if (f.cell_types[c] == 42) {
            Poly poly;
            if (n < 1) return err("polyhedron without face count");
            long nf = ints[p++];
            for (long k = 0; k < nf; k++) {
                if (p >= end) return err("polyhedron " + std::to_string(c) + " declares " + std::to_string(nf) + " faces but its integers end early");
                long m = ints[p++];
                if (m < 0 || p + (size_t)m > end) return err("face of polyhedron " + std::to_string(c) + " exceeds the cell's integers");
                std::vector<long> face(ints.begin() + p, ints.begin() + p + m);
                for (long id : face)
                    if (id < 0 || id >= np) return err("face refers to point " + std::to_string(id) + " but there are " + std::to_string(np) + " points");
                poly.faces.push_back(face);
                p += (size_t)m;
            }
            if (p != end) return err("polyhedron " + std::to_string(c) + " has trailing integers");
            f.cells.push_back(poly);
        } else {
            std::vector<long> face(ints.begin() + p, ints.begin() + end);
            for (long id : face)
                if (id < 0 || id >= np) return err("polygon refers to a point out of range");
            f.tris.push_back(face);
            p = end;
        }
    }
    if (p != ints.size()) return err("CELLS section has trailing integers after the declared cells");
    // optional data sections
    while (need(1)) {
        bool cell_data = tok[i] == "CELL_DATA", point_data = tok[i] == "POINT_DATA";
        if (!cell_data && !point_data) return err("unexpected token after the mesh sections");
        if (!need(2) || !is_int(tok[i + 1])) return err("data section count");
        long n = atol(tok[i + 1].c_str());
        i += 2;
        if (cell_data) {
            f.cell_data_n = n;
            if (n != nc) return err("CELL_DATA count " + std::to_string(n) + " differs from the number of cells " + std::to_string(nc));
        } else {
            f.point_data_n = n;
            if (n != np) return err("POINT_DATA count differs from the number of points");
        }
        while (need(1) && tok[i] != "CELL_DATA" && tok[i] != "POINT_DATA") {
            if (tok[i] == "FIELD") {
                if (!need(3) || !is_int(tok[i + 2])) return err("FIELD header");
                long na = atol(tok[i + 2].c_str());
                i += 3;
                for (long a = 0; a < na; a++) {
                    if (!need(4) || !is_int(tok[i + 1]) || !is_int(tok[i + 2])) return err("FIELD declares " + std::to_string(na) + " arrays but array " + std::to_string(a) + " has no header");
                    Field fd;
                    fd.name = tok[i], fd.comps = atol(tok[i + 1].c_str()), fd.tuples = atol(tok[i + 2].c_str()), fd.type = tok[i + 3];
                    i += 4;
                    if (fd.tuples != n) return err("array " + fd.name + " declares " + std::to_string(fd.tuples) + " tuples in a section of " + std::to_string(n));
                    for (long k = 0; k < fd.comps * fd.tuples; k++) {
                        if (!need(1) || !is_num(tok[i])) return err("array " + fd.name + " is shorter than declared or holds a non-number");
                        fd.values.push_back(tok[i]);
                        i++;
                    }
                    (cell_data ? f.cell_fields : f.point_fields).push_back(fd);
                }
            } else if (tok[i] == "VECTORS" || tok[i] == "NORMALS") {
                if (!need(3)) return err("VECTORS header");
                i += 3;
                for (long k = 0; k < 3 * n; k++) {
                    if (!need(1) || !is_num(tok[i])) return err("VECTORS shorter than declared");
                    i++;
                }
            } else {
                return err("unexpected token inside a data section");
            }
        }
    }
    return f;
}

}  // namespace vtkp
