// Closed polyhedra with polygonal faces (input geometries of the initial reconstruction) and a writer of the
// legacy-VTK input format (polyhedral cells + cell_type_id array).
#pragma once
#include <fstream>

#include "engine.hpp"
#include "geom.hpp"
#include "meshgen.hpp"

namespace pg {
using vg::ld;
using vg::TriMesh;
using vg::V3;

struct Poly {
    std::vector<double> xyz;
    std::vector<std::vector<unsigned>> faces;  // outward wound polygons (convex, planar)
    size_t nn() const { return xyz.size() / 3; }
    V3 p(unsigned i) const { return V3(xyz[3 * i], xyz[3 * i + 1], xyz[3 * i + 2]); }
    void write(vf::Writer& w) const {
        w.vd(xyz);
        w.u(faces.size());
        for (auto& f : faces) w.vu(f);
    }
    static Poly read(vf::Reader& r) {
        Poly p;
        p.xyz = r.vd();
        size_t n = r.u();
        for (size_t i = 0; i < n; i++) p.faces.push_back(r.vu());
        return p;
    }
};

inline unsigned addp(Poly& p, ld x, ld y, ld z) {
    p.xyz.push_back((double)x), p.xyz.push_back((double)y), p.xyz.push_back((double)z);
    return (unsigned)p.nn() - 1;
}

inline Poly from_trimesh(const TriMesh& m) {
    Poly p;
    p.xyz = m.xyz;
    for (size_t t = 0; t < m.nt(); t++) p.faces.push_back({m.tri[3 * t], m.tri[3 * t + 1], m.tri[3 * t + 2]});
    return p;
}

inline Poly box(ld a, ld b, ld c) {
    Poly p;
    for (int i = 0; i < 8; i++) addp(p, (i & 1) ? a : -a, (i & 2) ? b : -b, (i & 4) ? c : -c);
    p.faces = {{0, 2, 3, 1}, {4, 5, 7, 6}, {0, 1, 5, 4}, {2, 6, 7, 3}, {0, 4, 6, 2}, {1, 3, 7, 5}};
    return p;
}
inline Poly prism(int n, ld r, ld h) {
    Poly p;
    for (int i = 0; i < n; i++) addp(p, r * cosl(2 * M_PIl * i / n), r * sinl(2 * M_PIl * i / n), h);
    for (int i = 0; i < n; i++) addp(p, r * cosl(2 * M_PIl * i / n), r * sinl(2 * M_PIl * i / n), -h);
    std::vector<unsigned> top, bot;
    for (int i = 0; i < n; i++) top.push_back(i), bot.push_back(n + (n - 1 - i));
    p.faces.push_back(top);
    p.faces.push_back(bot);
    for (int i = 0; i < n; i++) {
        unsigned j = (i + 1) % n;
        p.faces.push_back({(unsigned)i, (unsigned)(n + i), (unsigned)(n + j), j});
    }
    return p;
}
// prism over an arbitrary convex polygon given counter-clockwise in the xy plane (sharp wedges: very acute polygon angles)
inline Poly prism_over(const std::vector<std::pair<ld, ld>>& outline, ld h) {
    Poly p;
    const int n = (int)outline.size();
    for (int i = 0; i < n; i++) addp(p, outline[i].first, outline[i].second, h);
    for (int i = 0; i < n; i++) addp(p, outline[i].first, outline[i].second, -h);
    std::vector<unsigned> top, bot;
    for (int i = 0; i < n; i++) top.push_back(i), bot.push_back(n + (n - 1 - i));
    p.faces.push_back(top);
    p.faces.push_back(bot);
    for (int i = 0; i < n; i++) {
        unsigned j = (i + 1) % n;
        p.faces.push_back({(unsigned)i, (unsigned)(n + i), (unsigned)(n + j), j});
    }
    return p;
}

// L-shaped prism built from convex faces only (the two L faces are split into rectangles)
inline Poly lprism(ld a, ld h) {
    Poly p;
    // L outline in the xy plane: (0,0) (2a,0) (2a,a) (a,a) (a,2a) (0,2a)
    const ld X[6] = {0, 2 * a, 2 * a, a, a, 0}, Y[6] = {0, 0, a, a, 2 * a, 2 * a};
    for (int z = 0; z < 2; z++)
        for (int i = 0; i < 6; i++) addp(p, X[i] - a, Y[i] - a, z ? h : -h);
    // extra points to split the L into two rectangles: (0,a) on the left edge
    unsigned m0 = addp(p, 0 - a, a - a, -h), m1 = addp(p, 0 - a, a - a, h);
    // bottom (z=-h, outward -z, clockwise seen from +z); the point (a,a) is a vertex of both polygons (no T-junction)
    p.faces.push_back({0, m0, 3, 2, 1});
    p.faces.push_back({m0, 5, 4, 3});
    // top (z=+h, counter-clockwise)
    p.faces.push_back({6, 7, 8, 9, m1});
    p.faces.push_back({m1, 9, 10, 11});
    // sides: edge i -> i+1 of the outline; the left edge (5 -> 0) is split at m
    for (int i = 0; i < 5; i++) p.faces.push_back({(unsigned)i, (unsigned)(i + 1), (unsigned)(6 + i + 1), (unsigned)(6 + i)});
    p.faces.push_back({5, m0, m1, 11});
    p.faces.push_back({m0, 0, 6, m1});
    return p;
}

// fan triangulation about the face centroid (exact for planar convex polygons) -> outward wound TriMesh
inline TriMesh triangulate(const Poly& p) {
    TriMesh m;
    m.xyz = p.xyz;
    for (auto& f : p.faces) {
        if (f.size() == 3) {
            mg::add_tri(m, f[0], f[1], f[2]);
            continue;
        }
        V3 c;
        for (unsigned id : f) c = c + p.p(id);
        c = c * ((ld)1 / f.size());
        unsigned cid = mg::add_node(m, c.x, c.y, c.z);
        for (size_t i = 0; i < f.size(); i++) mg::add_tri(m, f[i], f[(i + 1) % f.size()], cid);
    }
    return m;
}

struct VtkCell {
    Poly poly;
    short type_id = 0;
};
// writes the input file format (full precision coordinates so that the file *is* the generated geometry)
inline void write_vtk(const std::string& path, const std::vector<VtkCell>& cells, bool with_types = true) {
    std::ofstream o(path);
    o << "# vtk DataFile Version 4.2\nvtk output\nASCII\nDATASET UNSTRUCTURED_GRID\n";
    size_t np = 0;
    for (auto& c : cells) np += c.poly.nn();
    o << "POINTS " << np << " double\n";
    char b[64];
    size_t k = 0;
    for (auto& c : cells)
        for (double v : c.poly.xyz) {
            snprintf(b, sizeof b, "%.17g", v);
            o << b << ((++k % 3 == 0) ? "\n" : " ");
        }
    size_t nints = 0;
    std::vector<size_t> per;
    for (auto& c : cells) {
        size_t n = 1;
        for (auto& f : c.poly.faces) n += 1 + f.size();
        per.push_back(n);
        nints += n + 1;
    }
    o << "\nCELLS " << cells.size() << " " << nints << "\n";
    size_t off = 0;
    for (size_t i = 0; i < cells.size(); i++) {
        o << per[i] << " " << cells[i].poly.faces.size() << " ";
        for (auto& f : cells[i].poly.faces) {
            o << f.size() << " ";
            for (unsigned id : f) o << id + off << " ";
        }
        o << "\n";
        off += cells[i].poly.nn();
    }
    o << "\nCELL_TYPES " << cells.size() << "\n";
    for (size_t i = 0; i < cells.size(); i++) o << "42\n";
    if (with_types) {
        o << "\nCELL_DATA " << cells.size() << "\nFIELD FieldData 1\ncell_type_id 1 " << cells.size() << " int\n";
        for (auto& c : cells) o << c.type_id << " ";
        o << "\n";
    }
}

}  // namespace pg
