// Common engine scaffolding: case (de)serialisation, counters, crash dumps, rapidcheck driving, replay.
//
// An engine binary hosts one or more "subs".  Each sub has a Case type with
//     void write(vf::Writer&) const;   static Case read(vf::Reader&);
// a rapidcheck generator rc::Gen<Case> and an oracle
//     std::string run(const Case&, vf::Ctx&)      -> "" if the property held, else a violation message.
// The same run() is used under rapidcheck (generation + shrinking) and by --replay (no library involved).
//
// CLI:  engine --out DIR --seed N --cases M --max-size S [--budget-s T] [--sub NAME]...
//       engine --replay FILE
// Exit: 0 ok, 3 violation found (fail.<sub>.case written / replay still fails), 77/signal = process died
//       (crash.case written by the death callback), 4 usage/internal error.
#pragma once
#include <rapidcheck.h>

#include <chrono>
#include <csignal>
#include <cstdint>
#include <cstdio>
#include <cstring>
#include <fstream>
#include <functional>
#include <iomanip>
#include <map>
#include <set>
#include <sstream>
#include <string>
#include <unistd.h>
#include <vector>

extern "C" void __sanitizer_set_death_callback(void (*)(void)) __attribute__((weak));
// defaults for stand-alone runs of an engine (the driver sets the same through the environment);
// leaks are not part of any property: face <-> cell is a shared_ptr cycle by design
extern "C" __attribute__((weak, used)) const char* __asan_default_options() {
    return "detect_leaks=0:exitcode=77:abort_on_error=0:allocator_may_return_null=1";
}
extern "C" __attribute__((weak, used)) const char* __ubsan_default_options() {
    return "halt_on_error=1:exitcode=77:print_stacktrace=1";
}

#ifndef VERIF_VARIANT
#define VERIF_VARIANT "san"
#endif

namespace vf {

// ---------------------------------------------------------------- token stream
struct Writer {
    std::ostringstream os;
    void d(double v) {
        char b[64];
        snprintf(b, sizeof b, "%a", v);
        os << b << ' ';
    }
    void u(uint64_t v) { os << v << ' '; }
    void i(long long v) { os << v << ' '; }
    void s(const std::string& v) {  // no whitespace allowed in tokens
        os << (v.empty() ? std::string("_") : v) << ' ';
    }
    void nl() { os << '\n'; }
    void vd(const std::vector<double>& v) {
        u(v.size());
        for (double x : v) d(x);
        nl();
    }
    void vu(const std::vector<unsigned>& v) {
        u(v.size());
        for (unsigned x : v) u(x);
        nl();
    }
    std::string str() const { return os.str(); }
};

struct Reader {
    std::istringstream is;
    explicit Reader(const std::string& s) : is(s) {}
    std::string tok() {
        std::string t;
        if (!(is >> t)) throw std::runtime_error("replay file truncated");
        return t;
    }
    bool more() {  // is there another token? (lets newer engines read case files written before a field was added)
        is >> std::ws;
        return is.peek() != EOF;
    }
    double d() { return strtod(tok().c_str(), nullptr); }
    uint64_t u() { return strtoull(tok().c_str(), nullptr, 10); }
    long long i() { return strtoll(tok().c_str(), nullptr, 10); }
    std::string s() {
        std::string t = tok();
        return t == "_" ? std::string() : t;
    }
    std::vector<double> vd() {
        size_t n = u();
        std::vector<double> v(n);
        for (auto& x : v) x = d();
        return v;
    }
    std::vector<unsigned> vu() {
        size_t n = u();
        std::vector<unsigned> v(n);
        for (auto& x : v) x = (unsigned)u();
        return v;
    }
};

inline uint64_t fnv1a(const std::string& s) {
    uint64_t h = 1469598103934665603ull;
    for (unsigned char c : s) {
        h ^= c;
        h *= 1099511628211ull;
    }
    return h;
}

inline std::string json_escape(const std::string& s) {
    std::string o;
    for (unsigned char c : s) {
        if (c == '"' || c == '\\') {
            o += '\\';
            o += c;
        } else if (c == '\n') o += "\\n";
        else if (c < 0x20) o += ' ';
        else o += c;
    }
    return o;
}

// ---------------------------------------------------------------- per-run context (counters etc.)
struct Ctx {
    std::map<std::string, long long> counters;
    std::set<uint64_t> nontrivial;         // hashes of distinct non-trivial cases
    std::vector<std::string> samples;      // a few cases, human readable
    long long evaluations = 0;
    bool frozen = false;                   // true while shrinking / replaying: no counting
    bool cur_nontrivial = false;
    std::string cur_sample;
    void count(const std::string& k, long long n = 1) {
        if (!frozen) counters[k] += n;
    }
    void nontriv() { cur_nontrivial = true; }
    void sample(const std::string& s) { cur_sample = s; }
};

struct Sub {
    std::string name;
    // runs `cases` generated cases with the given seed/size; returns "" or a failure text (already shrunk);
    std::function<std::string(uint64_t seed, int cases, int max_size, Ctx&, const std::string& out)> campaign;
    std::function<std::string(Reader&, Ctx&)> replay;
};

// ---------------------------------------------------------------- crash dump
struct CrashState {
    std::string path;   // crash.case target
    std::string text;   // header + case being executed
};
inline CrashState& crash_state() {
    static CrashState s;
    return s;
}
inline void dump_crash_case() {
    CrashState& s = crash_state();
    if (s.path.empty() || s.text.empty()) return;
    FILE* f = fopen(s.path.c_str(), "w");
    if (!f) return;
    fwrite(s.text.data(), 1, s.text.size(), f);
    fclose(f);
}
inline void crash_signal(int sig) {
    dump_crash_case();
    signal(sig, SIG_DFL);
    raise(sig);
}
inline double& shrink_budget_s() {
    static double t = 120;
    return t;
}
inline int& case_timeout_s() {
    static int t = 600;
    return t;
}
inline void watchdog_signal(int) {
    // a single case ran longer than the per-case limit: candidate hang (the driver re-runs it 3x before believing it)
    CrashState& s = crash_state();
    size_t p = s.text.find("process died while executing this case");
    if (p != std::string::npos) s.text.replace(p, 38, "case exceeded the per-case time limit (hang?)");
    dump_crash_case();
    const char m[] = "WATCHDOG: case exceeded the per-case time limit\n";
    if (write(2, m, sizeof m - 1)) {}
    _exit(78);
}
inline void install_crash_dump(const std::string& path) {
    crash_state().path = path;
    signal(SIGALRM, watchdog_signal);
    if (__sanitizer_set_death_callback) __sanitizer_set_death_callback(dump_crash_case);
    signal(SIGABRT, crash_signal);
    signal(SIGSEGV, crash_signal);
    signal(SIGFPE, crash_signal);
    signal(SIGBUS, crash_signal);
    signal(SIGILL, crash_signal);
}

inline std::string& engine_name() {
    static std::string n;
    return n;
}
inline std::string header(const std::string& sub, const std::string& msg) {
    std::string m = msg;
    for (auto& c : m)
        if (c == '\n') c = ' ';
    return "engine " + engine_name() + "\nvariant " VERIF_VARIANT "\nsub " + sub + "\nmsg " + m + "\n---\n";
}

template <class Case>
Sub make_sub(const std::string& name, std::function<rc::Gen<Case>()> gen,
             std::function<std::string(const Case&, Ctx&)> run) {
    Sub s;
    s.name = name;
    s.campaign = [name, gen, run](uint64_t seed, int cases, int max_size, Ctx& ctx, const std::string& out) {
        std::string last_fail_text, last_fail_msg;
        rc::detail::TestParams p;
        p.seed = seed;
        p.maxSuccess = cases;
        p.maxSize = max_size;
        p.maxDiscardRatio = 20;
        rc::detail::TestMetadata md;
        md.id = name;
        md.description = name;
        auto g = gen();
        std::chrono::steady_clock::time_point first_failure;
        auto res = rc::detail::checkTestable(
            [&]() {
                // shrinking an expensive case may take very long: after the budget every further candidate is declined
                if (ctx.frozen && std::chrono::duration<double>(std::chrono::steady_clock::now() - first_failure).count() > shrink_budget_s()) return;
                const Case c = *g;
                Writer w;
                c.write(w);
                const std::string text = w.str();
                crash_state().text = header(name, "process died while executing this case") + text;
                ctx.cur_nontrivial = false;
                ctx.cur_sample.clear();
                if (!ctx.frozen) ctx.evaluations++;
                alarm((unsigned)case_timeout_s());
                std::string msg = run(c, ctx);
                alarm(0);
                // heap damage done by a case may surface only later (in a destructor, in the next allocation, at exit): until the next case
                // starts, a dying process still names the case that ran last
                crash_state().text = header(name, "process died after this case had returned") + text;
                if (!ctx.frozen) {
                    if (ctx.cur_nontrivial) ctx.nontrivial.insert(fnv1a(text));
                    if (!ctx.cur_sample.empty() && ctx.samples.size() < 4 &&
                        (ctx.cur_nontrivial || ctx.samples.empty()))
                        ctx.samples.push_back(ctx.cur_sample);
                }
                if (!msg.empty()) {
                    if (!ctx.frozen) first_failure = std::chrono::steady_clock::now();
                    ctx.frozen = true;  // everything after the first failure is shrinking
                    last_fail_text = text;
                    last_fail_msg = msg;
                    RC_FAIL(msg);
                }
            },
            md, p);
        ctx.frozen = false;
        if (res.template is<rc::detail::SuccessResult>()) return std::string();
        if (res.template is<rc::detail::FailureResult>() && !last_fail_text.empty())
            return header(name, last_fail_msg) + last_fail_text;
        if (res.template is<rc::detail::GaveUpResult>()) {
            ctx.counters["rapidcheck_gave_up"]++;
            return std::string();
        }
        std::ostringstream os;
        rc::detail::printResultMessage(res, os);
        if (!last_fail_text.empty()) return header(name, last_fail_msg) + last_fail_text;
        return header(name, "rapidcheck error: " + os.str());
    };
    s.replay = [run](Reader& r, Ctx& ctx) {
        Case c = Case::read(r);
        alarm((unsigned)case_timeout_s());
        std::string m = run(c, ctx);
        alarm(0);
        return m;
    };
    return s;
}

inline void dump_stats(const std::string& path, const std::map<std::string, Ctx>& per_sub, double wall) {
    std::ofstream o(path);
    o << "{\n \"wall_s\": " << wall << ",\n \"subs\": {";
    bool first = true;
    for (auto& kv : per_sub) {
        const Ctx& c = kv.second;
        o << (first ? "\n" : ",\n") << "  \"" << kv.first << "\": {\"evaluations\": " << c.evaluations
          << ", \"nontrivial_hashes\": [";
        first = false;
        bool f2 = true;
        for (auto h : c.nontrivial) {
            o << (f2 ? "" : ",") << "\"" << std::hex << h << std::dec << "\"";
            f2 = false;
        }
        o << "], \"counters\": {";
        f2 = true;
        for (auto& ck : c.counters) {
            o << (f2 ? "" : ", ") << "\"" << json_escape(ck.first) << "\": " << ck.second;
            f2 = false;
        }
        o << "}, \"samples\": [";
        f2 = true;
        for (auto& s : c.samples) {
            o << (f2 ? "" : ", ") << "\"" << json_escape(s) << "\"";
            f2 = false;
        }
        o << "]}";
    }
    o << "\n }\n}\n";
}

inline int engine_main(int argc, char** argv, const std::string& name, const std::vector<Sub>& subs) {
    engine_name() = name;
    std::string out = ".", replay;
    uint64_t seed = 1;
    int cases = 100, max_size = 100;
    double budget = 1e18;
    std::set<std::string> only;
    for (int i = 1; i < argc; i++) {
        std::string a = argv[i];
        auto next = [&]() -> std::string {
            if (i + 1 >= argc) {
                fprintf(stderr, "missing value for %s\n", a.c_str());
                exit(4);
            }
            return argv[++i];
        };
        if (a == "--out") out = next();
        else if (a == "--seed") seed = strtoull(next().c_str(), nullptr, 10);
        else if (a == "--cases") cases = atoi(next().c_str());
        else if (a == "--max-size") max_size = atoi(next().c_str());
        else if (a == "--budget-s") budget = atof(next().c_str());
        else if (a == "--sub") only.insert(next());
        else if (a == "--replay") replay = next();
        else if (a == "--case-timeout-s") case_timeout_s() = atoi(next().c_str());
        else if (a == "--shrink-budget-s") shrink_budget_s() = atof(next().c_str());
        else {
            fprintf(stderr, "unknown argument %s\n", a.c_str());
            return 4;
        }
    }
    setvbuf(stdout, nullptr, _IOLBF, 0);
    if (!replay.empty()) {
        std::ifstream f(replay);
        if (!f) {
            fprintf(stderr, "cannot open %s\n", replay.c_str());
            return 4;
        }
        std::string line, subname, body;
        bool in_body = false;
        while (std::getline(f, line)) {
            if (in_body) body += line + "\n";
            else if (line == "---") in_body = true;
            else if (line.rfind("sub ", 0) == 0) subname = line.substr(4);
        }
        for (auto& s : subs)
            if (s.name == subname) {
                install_crash_dump("");
                Ctx ctx;
                ctx.frozen = true;
                Reader r(body);
                std::string msg = s.replay(r, ctx);
                if (msg.empty()) {
                    printf("REPLAY-OK sub=%s\n", subname.c_str());
                    return 0;
                }
                printf("REPLAY-VIOLATION sub=%s msg=%s\n", subname.c_str(), msg.c_str());
                return 3;
            }
        fprintf(stderr, "no sub named '%s' in engine %s\n", subname.c_str(), name.c_str());
        return 4;
    }

    install_crash_dump(out + "/crash.case");
    auto t0 = std::chrono::steady_clock::now();
    auto elapsed = [&]() { return std::chrono::duration<double>(std::chrono::steady_clock::now() - t0).count(); };
    std::map<std::string, Ctx> per_sub;
    int rc_exit = 0;
    // budget is shared evenly by the selected subs
    std::vector<const Sub*> sel;
    for (auto& s : subs)
        if (only.empty() || only.count(s.name)) sel.push_back(&s);
    if (sel.empty()) {
        fprintf(stderr, "no sub selected\n");
        return 4;
    }
    size_t k = 0;
    for (const Sub* s : sel) {
        Ctx& ctx = per_sub[s->name];
        const double sub_deadline = budget * double(++k) / double(sel.size());
        int done = 0;
        uint64_t batch_no = 0;
        const int batch = std::max(20, std::min(cases, 200));
        while (done < cases) {
            if (elapsed() > sub_deadline) {
                ctx.counters["budget_exhausted_cases_not_run"] += cases - done;
                break;
            }
            int n = std::min(batch, cases - done);
            uint64_t bseed = seed * 1000003ull + (batch_no++) * 7919ull + fnv1a(s->name) % 1000;
            std::string fail = s->campaign(bseed, n, max_size, ctx, out);
            done += n;
            if (!fail.empty()) {
                std::string p = out + "/fail." + s->name + ".case";
                std::ofstream(p) << fail;
                printf("ENGINE-FAIL sub=%s file=%s\n", s->name.c_str(), p.c_str());
                rc_exit = 3;
                break;
            }
        }
        dump_stats(out + "/stats.json", per_sub, elapsed());
    }
    dump_stats(out + "/stats.json", per_sub, elapsed());
    return rc_exit;
}

// ---------------------------------------------------------------- generator helpers
// inRange collapses at small sizes; always resize.  Doubles are built from integers so they shrink.
inline rc::Gen<int> irange(int lo, int hi) {  // inclusive
    return rc::gen::resize(100, rc::gen::inRange(lo, hi + 1));
}
inline rc::Gen<double> unit() {  // [0,1] with 2^-30 resolution
    return rc::gen::map(rc::gen::resize(100, rc::gen::inRange<int64_t>(0, (int64_t(1) << 30) + 1)),
                        [](int64_t v) { return double(v) / double(int64_t(1) << 30); });
}
inline rc::Gen<double> uniform(double lo, double hi) {
    return rc::gen::map(unit(), [lo, hi](double u) { return lo + (hi - lo) * u; });
}
inline rc::Gen<double> loguniform(double lo, double hi) {
    return rc::gen::map(unit(), [lo, hi](double u) { return lo * std::pow(hi / lo, u); });
}

}  // namespace vf
