// C19 — output files and statistics are complete, well-formed and match simulated state.
// (also carries the end-to-end clause of C18: all run parameters are fed through a generated XML file and the real reader)
// A real solver is stepped with run_iteration(); after every iteration the files on disk and the statistics are compared with
// what the documented sampling rule and the population history imply.
#include "common/engine.hpp"
#include "common/solverkit.hpp"
#include "common/tissuegen.hpp"
#include "common/vtkparse.hpp"
#include "common/xmlgen.hpp"

#include "parameter_reader.hpp"

using namespace vg;

struct Ev {
    int iter = 0, kind = 0;  // kind 1 shrink (removal), 2 inflate (division)
    unsigned k = 0;
};
struct Case {
    std::string dt_txt = "1e-3", S_txt = "2e-3", T_txt = "1e-2";
    int ratio_class = 0;
    int ncells = 2, threads = 1, stats_in_string = 1, use_run = 0;
    std::vector<Ev> events;
    std::vector<int> cls;  // class of each initial cell: 0 epithelial, 2 lumen, 4 static (static cells still grow and change pressure)
    void write(vf::Writer& w) const {
        w.s(dt_txt), w.s(S_txt), w.s(T_txt), w.i(ratio_class), w.i(ncells), w.i(threads), w.i(stats_in_string), w.i(use_run), w.u(events.size());
        for (auto& e : events) w.i(e.iter), w.i(e.kind), w.u(e.k);
        for (int q : cls) w.i(q);
        w.nl();
    }
    static Case read(vf::Reader& r) {
        Case c;
        c.dt_txt = r.s(), c.S_txt = r.s(), c.T_txt = r.s(), c.ratio_class = (int)r.i(), c.ncells = (int)r.i(), c.threads = (int)r.i(), c.stats_in_string = (int)r.i(),
        c.use_run = (int)r.i();
        size_t n = r.u();
        for (size_t i = 0; i < n; i++) {
            Ev e;
            e.iter = (int)r.i(), e.kind = (int)r.i(), e.k = (unsigned)r.u();
            c.events.push_back(e);
        }
        for (int i = 0; i < c.ncells; i++) c.cls.push_back(r.more() ? (int)r.i() : 0);
        return c;
    }
};
static std::string g17(double v) {
    char b[64];
    snprintf(b, sizeof b, "%.17g", v);
    return b;
}
static rc::Gen<Case> genCase() {
    using namespace vf;
    return rc::gen::exec([]() {
        Case c;
        const double dt = *rc::gen::oneOf(loguniform(1e-4, 1e-2), rc::gen::element(1e-3, 0.024008386558732005, 0.001, 0.01));
        c.ratio_class = *irange(0, 4);  // 0: S == dt, 1: S = k dt, 2: irrational ratio, 3: S slightly above dt, 4: S = k dt (large k)
        double S;
        switch (c.ratio_class) {
            case 0: S = dt; break;
            case 1: S = dt * (*irange(2, 7)); break;
            case 2: S = dt * (*uniform(1.0, 9.0)); break;
            case 3: S = dt * (1 + *loguniform(1e-12, 1e-2)); break;
            default: S = dt * (*irange(10, 60)); break;
        }
        const int iters = *rc::gen::oneOf(irange(1, 40), irange(40, 130));
        const double T = dt * (iters - 1 + *uniform(0.05, 1.0));
        c.dt_txt = g17(dt), c.S_txt = g17(S), c.T_txt = g17(T);
        c.ncells = *irange(1, 4);
        for (int i = 0; i < c.ncells; i++) c.cls.push_back(i == 0 ? 0 : *rc::gen::element(0, 0, 0, 4, 4, 2));
        c.threads = *rc::gen::element(1, 2, 4);
        c.stats_in_string = *irange(0, 1);
        c.use_run = *irange(0, 3) == 0;
        int ne = c.use_run ? 0 : *irange(0, 4);
        for (int i = 0; i < ne; i++) c.events.push_back({*irange(0, std::max(0, iters - 1)), *irange(1, 2), (unsigned)*irange(0, 100)});
        return c;
    });
}

static std::vector<std::string> split(const std::string& s, char sep) {
    std::vector<std::string> out;
    std::string cur;
    for (char ch : s) {
        if (ch == sep) out.push_back(cur), cur.clear();
        else cur += ch;
    }
    out.push_back(cur);
    return out;
}
static std::string fmt(double v, const char* f) {
    char b[64];
    snprintf(b, sizeof b, f, v);
    return b;
}

static std::string run(const Case& k, vf::Ctx& ctx) {
    ct::CellScope scope;
    const std::string dir = sk::scratch_dir("c19");
    std::filesystem::create_directories(dir);
    struct RmDir {
        std::string d;
        ~RmDir() {
            std::error_code ec;
            std::filesystem::remove_all(d, ec);
        }
    } rmdir{dir};
    // ---- parameters go through the XML reader (end-to-end clause of C18)
    xg::ParamFile pf = xg::defaults(dir + "/unused.vtk", dir + "/out");
    *xg::find(pf.numerical, "time_step") = k.dt_txt;
    *xg::find(pf.numerical, "sampling_period") = k.S_txt;
    *xg::find(pf.numerical, "simulation_duration") = k.T_txt;
    *xg::find(pf.numerical, "min_edge_length") = "0.27";
    *xg::find(pf.numerical, "contact_cutoff_adhesion") = "0.05";
    *xg::find(pf.numerical, "contact_cutoff_repulsion") = "0.05";
    {
        // the generated time steps span three decades: density ~ dt^2 and damping ~ dt make the trajectory per iteration the same for all of
        // them (similarity in time), so that every run is as stable as the dt = 1e-3 reference instead of blowing up for the large steps
        const double f = strtod(k.dt_txt.c_str(), nullptr) / 1e-3;
        char b[64];
        snprintf(b, sizeof b, "%.17g", 5.0 * f);
        *xg::find(pf.numerical, "damping_coefficient") = b;
        snprintf(b, sizeof b, "%.17g", 1.0 * f * f);
        for (auto& ctp : pf.cell_types) *xg::find(ctp.tags, "cell_mass_density") = b;
    }
    {
        std::ofstream o(dir + "/p.xml");
        o << xg::render(pf, 3);
    }
    global_simulation_parameters sp;
    std::vector<std::shared_ptr<cell_type_parameters>> types;
    try {
        parameter_reader rd(dir + "/p.xml");
        sp = rd.read_numerical_parameters();
        types = rd.read_biomechanical_parameters();
    } catch (const std::exception& e) {
        return std::string("valid parameter file rejected: ") + e.what();
    }
    const double dt = strtod(k.dt_txt.c_str(), nullptr), S = strtod(k.S_txt.c_str(), nullptr), T = strtod(k.T_txt.c_str(), nullptr);
    if (sp.time_step_ != dt || sp.sampling_period_ != S || sp.simulation_duration_ != T) return "time step / sampling period / duration not those of the file";
    // ---- cells: non-interacting level-1 balls
    std::vector<cell_ptr> cells;
    std::map<int, std::shared_ptr<cell_type_parameters>> class_type;
    for (int i = 0; i < k.ncells; i++) {
        TriMesh m = tg::ball(1, 1.0, V3(5.0 * i, 0, 0));
        const int cls = i < (int)k.cls.size() ? k.cls[i] : 0;
        if (cls != 0 && !class_type.count(cls)) {
            class_type[cls] = std::make_shared<cell_type_parameters>(*types[0]);
            class_type[cls]->global_type_id_ = (short)cls;
        }
        cell_ptr c = cls == 0 ? cell_ptr(ct::make_cell<epithelial_cell>(m, (unsigned)i, types[0])) : ct::make_cell_of_class(cls, m, (unsigned)i, class_type[cls]);
        if (cls != 0) ctx.count(cls == 4 ? "population_with_a_static_cell" : "population_with_a_lumen");
        scope.add(c);
        cells.push_back(c);
    }
    const double v0 = cells[0]->get_volume();
    types[0]->min_vol_ = 0.4 * v0;
    types[0]->avg_division_vol_ = 1.6 * v0;
    types[0]->std_division_vol_ = 0;
    // every cell subject to internal forces grows a little at every iteration (0.05 % of its volume), so that the rows of two records differ
    types[0]->avg_growth_rate_ = 5e-4 * v0 / dt, types[0]->std_growth_rate_ = 0;
    for (auto& kv : class_type) {
        kv.second->min_vol_ = types[0]->min_vol_, kv.second->avg_growth_rate_ = types[0]->avg_growth_rate_, kv.second->std_growth_rate_ = 0;
        kv.second->avg_division_vol_ = std::numeric_limits<double>::infinity(), kv.second->std_division_vol_ = 0;
    }
    for (auto& c : cells) c->initialize_random_properties();
    std::unique_ptr<sk::test_solver> Sv;
    try {
        Sv.reset(new sk::test_solver(sp, cells, k.threads, k.stats_in_string != 0));
    } catch (const std::exception& e) {
        return std::string("solver construction failed: ") + e.what();
    }
    struct Keep {
        sk::test_solver* s;
        ct::CellScope* sc;
        ~Keep() { sc->add(s->cells()); }
    } keep{Sv.get(), &scope};
    std::ostringstream os;
    os << std::setprecision(17);
    // ---- stepping
    struct Rec {
        unsigned iteration;
        std::vector<unsigned> ids;                 // cells that must have a row
        std::map<unsigned, std::vector<std::string>> vals;  // id -> expected id,type,area,volume,target_volume,pressure (survivors only)
    };
    std::vector<Rec> recs;
    std::map<unsigned, std::vector<unsigned>> file_ids;  // file number -> ids alive when written
    double t_fold = 0;
    long n_iter = 0, pop_changes_between_records = 0;
    bool changed_since_record = false;
    auto snapshot_vals = [&](Rec& r, const std::vector<cell_ptr>& alive) {
        for (auto& c : alive)
            r.vals[c->get_id()] = {std::to_string(c->get_id()), std::to_string((int)c->get_cell_type()->global_type_id_), fmt(c->get_area(), "%.3e"), fmt(c->get_volume(), "%.3e"),
                                   fmt(c->get_target_volume(), "%.3e"), fmt(c->get_pressure(), "%.3e")};
    };
    unsigned last_file = 0;
    if (k.use_run) {
        try {
            Sv->run();
        } catch (const std::exception& e) {
            ctx.count("run_ended_by_exception");
            return "";
        }
        // iterations performed = first n with fold(n dt) >= T
        long n = 0;
        double t = 0;
        while (t < T) t += dt, n++;
        if ((long)Sv->iteration() != n || Sv->time() != t) {
            os << "run() performed " << Sv->iteration() << " iterations and stopped at t = " << Sv->time() << "; one time step per iteration until T gives " << n << " iterations, t = " << t;
            return os.str();
        }
        n_iter = n;
        for (auto& c : Sv->cells())
            if (!cell_tester::free_nodes(*c).empty() || !cell_tester::free_faces(*c).empty()) return "run() left unused slots in a cell (final compaction missing)";
    } else {
        while (Sv->time() < T && !Sv->cells().empty()) {
            const unsigned it = Sv->iteration();
            for (const Ev& e : k.events)
                if (e.iter == (int)it && !Sv->cells().empty()) {
                    cell& C = *Sv->cells()[e.k % Sv->cells().size()];
                    if (e.kind == 1) sk::scale_cell(C, 0.72);
                    else if (C.get_volume() < 3 * v0) sk::scale_cell(C, 1.36);
                }
            std::vector<cell_ptr> before = Sv->cells();
            std::vector<bool> was_ready;
            for (auto& c : before) was_ready.push_back(c->is_ready_to_divide());
            const unsigned file_before = Sv->file_number();
            try {
                Sv->run_iteration();
            } catch (const std::exception& e) {
                ctx.count("history_ended_by_solver_exception");
                return "";
            }
            n_iter++;
            t_fold += dt;
            if (Sv->time() != t_fold) {
                os << "after " << n_iter << " iterations the simulated time is " << Sv->time() << ", one time step per iteration gives " << t_fold;
                return os.str();
            }
            if (Sv->file_number() != file_before) {
                std::vector<unsigned> ids;
                for (auto& c : before) ids.push_back(c->get_id());
                file_ids[Sv->file_number()] = ids;
                last_file = Sv->file_number();
            }
            std::set<unsigned> after_ids;
            for (auto& c : Sv->cells()) after_ids.insert(c->get_id());
            bool changed = after_ids.size() != before.size();
            for (auto& c : before) changed |= !after_ids.count(c->get_id());
            if (it % 50 == 0) {
                Rec r;
                r.iteration = it;
                for (auto& c : Sv->cells()) r.ids.push_back(c->get_id());
                // cells removed at the end of this iteration were alive when the statistics were recorded; mothers that divided at the
                // start of the iteration were not
                for (size_t i = 0; i < before.size(); i++)
                    if (!after_ids.count(before[i]->get_id()) && !(was_ready[i] && it % 5 == 0)) r.ids.push_back(before[i]->get_id());
                snapshot_vals(r, Sv->cells());
                recs.push_back(r);
                if (changed_since_record) pop_changes_between_records++;
                changed_since_record = false;
            }
            if (changed) changed_since_record = true;
        }
    }
    // ---- mesh files: pairs numbered 1..K without gaps, K within one of T/S + 1, parseable, right cells
    std::set<unsigned> cell_files, face_files;
    for (auto sub : {"cell_data", "face_data"})
        for (auto& e : std::filesystem::directory_iterator(dir + "/out/" + sub)) {
            std::string n = e.path().filename().string();
            unsigned num = 0;
            if (sscanf(n.c_str(), "result_%u.vtk", &num) != 1) return std::string("unexpected file in ") + sub + ": " + n;
            (std::string(sub) == "cell_data" ? cell_files : face_files).insert(num);
        }
    if (cell_files != face_files) return "cell-data and face-data files do not come in pairs";
    const long K = (long)cell_files.size();
    if (K > 0 && (*cell_files.begin() != 1 || *cell_files.rbegin() != (unsigned)K)) {
        os << "mesh files are not numbered 1.." << K << " without gaps: ";
        for (unsigned n : cell_files) os << n << " ";
        os << "(dt=" << k.dt_txt << " S=" << k.S_txt << " T=" << k.T_txt << ")";
        return os.str();
    }
    const bool ran_to_T = k.use_run || (!Sv->cells().empty() || Sv->time() >= T);
    if (ran_to_T && Sv->time() >= T) {
        const long expect = (long)std::floor(T / S) + 1;
        if (std::labs(K - expect) > 1) {
            os << K << " file pairs written, floor(T/S)+1 = " << expect << " (dt=" << k.dt_txt << " S=" << k.S_txt << " T=" << k.T_txt << ")";
            return os.str();
        }
    }
    for (unsigned n : cell_files) {
        vtkp::File cf = vtkp::parse(dir + "/out/cell_data/result_" + std::to_string(n) + ".vtk");
        if (!cf.error.empty()) return "cell_data/result_" + std::to_string(n) + ".vtk is not well-formed: " + cf.error;
        vtkp::File ff = vtkp::parse(dir + "/out/face_data/result_" + std::to_string(n) + ".vtk");
        if (!ff.error.empty()) return "face_data/result_" + std::to_string(n) + ".vtk is not well-formed: " + ff.error;
        auto it = file_ids.find(n);
        if (it != file_ids.end()) {
            std::vector<unsigned> got;
            for (auto& f : cf.cell_fields)
                if (f.name == "cell_id")
                    for (auto& v : f.values) got.push_back((unsigned)atoi(v.c_str()));
            if (got != it->second) {
                os << "cell_data/result_" << n << ".vtk lists " << got.size() << " cell ids that are not the cells alive when it was written (" << it->second.size() << ")";
                return os.str();
            }
        }
    }
    // ---- statistics
    std::string stats;
    if (k.stats_in_string) stats = Sv->get_simulation_statistics();
    else {
        std::ifstream f(dir + "/out/simulation_statistics.csv");
        std::stringstream ss;
        ss << f.rdbuf();
        stats = ss.str();
    }
    auto lines = split(stats, '\n');
    while (!lines.empty() && lines.back().empty()) lines.pop_back();
    if (lines.empty() || lines[0].rfind("iteration,", 0) != 0) return "statistics have no header";
    const auto header = split(lines[0], ',');
    std::map<std::string, size_t> col;
    for (size_t i = 0; i < header.size(); i++) col[header[i]] = i;
    for (auto name : {"cell_id", "type_id", "area", "volume", "target_volume", "pressure"})
        if (!col.count(name)) return std::string("statistics header lacks the column ") + name;
    std::map<unsigned, std::vector<std::vector<std::string>>> rows;  // iteration -> rows
    for (size_t i = 1; i < lines.size(); i++) {
        if (lines[i].rfind("iteration,", 0) == 0) return "statistics contain more than one header";
        auto f = split(lines[i], ',');
        if (f.size() != header.size()) {
            os << "statistics row " << i << " has " << f.size() << " fields, the header has " << header.size();
            return os.str();
        }
        rows[(unsigned)atoi(f[0].c_str())].push_back(f);
    }
    if (!k.use_run) {
        if (rows.size() != recs.size()) {
            os << "statistics hold rows for " << rows.size() << " iterations, " << recs.size() << " iterations were due (every 50th)";
            return os.str();
        }
        for (auto& r : recs) {
            auto it = rows.find(r.iteration);
            if (it == rows.end()) {
                os << "no statistics rows for iteration " << r.iteration;
                return os.str();
            }
            std::multiset<unsigned> got, want(r.ids.begin(), r.ids.end());
            for (auto& f : it->second) got.insert((unsigned)atoi(f[col["cell_id"]].c_str()));
            if (got != want) {
                os << "statistics of iteration " << r.iteration << " hold " << got.size() << " rows, " << want.size() << " cells were alive when they were recorded; ids in the rows {";
                for (unsigned x : got) os << x << " ";
                os << "}, ids of the cells {";
                for (unsigned x : want) os << x << " ";
                os << "}";
                return os.str();
            }
            for (auto& f : it->second) {
                auto v = r.vals.find((unsigned)atoi(f[col["cell_id"]].c_str()));
                if (v == r.vals.end()) continue;  // removed at the end of that iteration: its state is gone
                static const char* N[] = {"cell_id", "type_id", "area", "volume", "target_volume", "pressure"};
                for (int q = 0; q < 6; q++)
                    if (f[col[N[q]]] != v->second[q]) {
                        os << "statistics of iteration " << r.iteration << ", cell " << v->first << ": column " << N[q] << " holds " << f[col[N[q]]] << ", the cell's value prints as " << v->second[q];
                        return os.str();
                    }
            }
        }
    } else {
        // recorded iterations: every 50th that was executed plus the final record
        std::set<unsigned> want;
        for (long i = 0; i < n_iter; i += 50) want.insert((unsigned)i);
        want.insert((unsigned)n_iter);
        std::set<unsigned> got;
        for (auto& kv : rows) got.insert(kv.first);
        if (got != want) {
            os << "statistics recorded at iterations {";
            for (unsigned g : got) os << g << " ";
            os << "} but every 50th and the last are {";
            for (unsigned g : want) os << g << " ";
            os << "}";
            return os.str();
        }
        for (auto& kv : rows)
            if (kv.second.size() != Sv->cells().size()) return "a recorded iteration does not have one row per cell";
        auto& last = rows[(unsigned)n_iter];
        for (auto& f : last) {
            unsigned id = (unsigned)atoi(f[col["cell_id"]].c_str());
            for (auto& c : Sv->cells())
                if (c->get_id() == id)
                    if (f[col["volume"]] != fmt(c->get_volume(), "%.3e") || f[col["pressure"]] != fmt(c->get_pressure(), "%.3e") || f[col["area"]] != fmt(c->get_area(), "%.3e") ||
                        f[col["target_volume"]] != fmt(c->get_target_volume(), "%.3e"))
                        return "final statistics row does not match the cell's values";
        }
    }
    static const char* RC[] = {"S_equals_dt", "S_multiple_of_dt", "S_irrational", "S_slightly_above_dt", "S_large_multiple"};
    ctx.count(std::string("ratio_") + RC[k.ratio_class]);
    ctx.count("iterations", n_iter);
    ctx.count("file_pairs", K);
    if (pop_changes_between_records) ctx.count("population_changed_between_records");
    if (K >= 3 && (pop_changes_between_records || k.use_run || n_iter > 50)) {
        ctx.nontriv();
        std::ostringstream s2;
        s2 << "dt=" << k.dt_txt << " S=" << k.S_txt << " T=" << k.T_txt << " (" << RC[k.ratio_class] << ") iterations=" << n_iter << " files=" << K << " cells0=" << k.ncells
           << " events=" << k.events.size() << (k.use_run ? " via run()" : "");
        ctx.sample(s2.str());
    }
    return "";
}

int main(int argc, char** argv) {
    std::vector<vf::Sub> subs;
    subs.push_back(vf::make_sub<Case>("outputs", genCase, run));
    return vf::engine_main(argc, argv, "C19_outputs", subs);
}
