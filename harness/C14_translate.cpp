// C14 — simulation results do not depend on where the tissue is placed in space.
// Two real solvers run in lock-step on a tissue and on its translated copy; after every iteration connectivity must be
// identical and positions must differ by the translation up to a noise-calibrated tolerance: two further runs of the
// reference tissue with representation-error-sized coordinate noise measure how rounding noise is amplified.
#include "common/engine.hpp"
#include "common/solverkit.hpp"
#include "common/tissuegen.hpp"
#include "common/meshgen.hpp"

#include "contact_face_face_via_coupling.hpp"
#include "contact_node_face_via_spring.hpp"
#include "contact_node_node_via_coupling.hpp"
#if CONTACT_MODEL_INDEX == 0
typedef contact_node_face_via_spring dbg_model_t;
#elif CONTACT_MODEL_INDEX == 1
typedef contact_node_node_via_coupling dbg_model_t;
#else
typedef contact_face_face_via_coupling dbg_model_t;
#endif

using namespace vg;

struct Case {
    tg::Tissue tissue;
    double tr[3] = {0, 0, 0};
    int tclass = 0, iterations = 20;
    double dt = 1e-3, growth = 0;
    unsigned nseed = 1;
    unsigned rough = 0;  // != 0: the cells of all four runs first undergo the same real edge collapses / splits (unused node and face slots)
    void write(vf::Writer& w) const {
        tissue.write(w);
        for (double v : tr) w.d(v);
        w.i(tclass), w.i(iterations), w.d(dt), w.d(growth), w.u(nseed);
        w.u(rough);
        w.nl();
    }
    static Case read(vf::Reader& r) {
        Case c;
        c.tissue = tg::Tissue::read(r);
        for (double& v : c.tr) v = r.d();
        c.tclass = (int)r.i(), c.iterations = (int)r.i(), c.dt = r.d(), c.growth = r.d(), c.nseed = (unsigned)r.u();
        if (r.more()) c.rough = (unsigned)r.u();
        return c;
    }
};
static const char* TC[] = {"fraction_of_size", "10_sizes", "100_sizes", "across_origin", "voxel_multiple", "1000_sizes", "origin_on_a_cell_surface"};

static rc::Gen<Case> genCase() {
    using namespace vf;
    return rc::gen::exec([]() {
        Case c;
        c.tissue = *tg::genTissue(4, 1, *irange(0, 1), false);
        // every cell is turned about its own centre: identical, axis-aligned icospheres make exact ties (a node normal exactly perpendicular
        // to a face normal of the neighbour sits on the threshold of the contact pre-filter, and rounding decides)
        for (auto& cd : c.tissue.cells) {
            V3 g = vg::vertex_mean(cd.mesh);
            vg::Quat q = vg::Quat::from(*uniform(-1, 1), *uniform(-1, 1), *uniform(-1, 1), *uniform(-1, 1));
            for (size_t i = 0; i < cd.mesh.nn(); i++) {
                V3 r = q.rot(cd.mesh.p((unsigned)i) - g) + g;
                cd.mesh.xyz[3 * i] = (double)r.x, cd.mesh.xyz[3 * i + 1] = (double)r.y, cd.mesh.xyz[3 * i + 2] = (double)r.z;
            }
        }
        // the reference tissue sits a few sizes away from the origin so that "across the origin" is a real class
        const double s = 3.0;
        double base[3] = {*uniform(2, 4) * s, *uniform(-1, 1) * s, *uniform(-1, 1) * s};
        for (auto& cd : c.tissue.cells)
            for (size_t i = 0; i < cd.mesh.nn(); i++)
                for (int q = 0; q < 3; q++) cd.mesh.xyz[3 * i + q] += base[q];
        c.tclass = *irange(0, 6);
        V3 d(*uniform(-1, 1), *uniform(-1, 1), *uniform(-1, 1));
        if (d.norm() < 1e-2) d = V3(1, 0, 0);
        d = d * (1 / d.norm());
        const double voxel = 0.5 * c.tissue.edge * 3 + 2 * 0.2 * c.tissue.edge;
        switch (c.tclass) {
            case 0: d = d * (0.4 * s); break;
            case 1: d = d * (10 * s); break;
            case 2: d = d * (100 * s); break;
            case 3: d = V3(-2 * base[0], -2 * base[1], -2 * base[2]); break;
            case 4: d = V3(voxel * (*irange(1, 9)), voxel * (*irange(-9, 9)), 0); break;
            case 6: {
                // the translated tissue has a node of one of its cells (almost) at the coordinate origin: whatever the code parks at (0,0,0) -
                // unused node slots - then lies within the contact cut-off of a surface
                const auto& m = c.tissue.cells[(size_t)*irange(0, (int)c.tissue.cells.size() - 1)].mesh;
                const V3 p = m.p((unsigned)*irange(0, (int)m.nn() - 1));
                const double cut = 0.2 * c.tissue.edge;
                d = p * (-1.0L) + V3(*uniform(-1, 1), *uniform(-1, 1), *uniform(-1, 1)) * (0.25 * cut);
                break;
            }
            default: d = d * (1000 * s); break;
        }
        c.tr[0] = (double)d.x, c.tr[1] = (double)d.y, c.tr[2] = (double)d.z;
        c.iterations = *irange(10, 45);
        c.dt = *rc::gen::element(1e-3, 2e-3, 5e-4);
        c.growth = *rc::gen::element(0.0, 0.0, 30.0);
        c.nseed = (unsigned)*irange(1, 1 << 30);
        if (*irange(0, 1)) c.rough = (unsigned)*irange(1, 1 << 20);
        return c;
    });
}

struct Run {
    std::unique_ptr<sk::test_solver> S;
    std::string dir;
};

static uint64_t splitmix(uint64_t& s) {
    uint64_t z = (s += 0x9e3779b97f4a7c15ull);
    z = (z ^ (z >> 30)) * 0xbf58476d1ce4e5b9ull;
    z = (z ^ (z >> 27)) * 0x94d049bb133111ebull;
    return z ^ (z >> 31);
}
static double u11(uint64_t& s) { return (double)(splitmix(s) >> 11) / (double)(1ull << 53) * 2 - 1; }

static std::string run(const Case& k, vf::Ctx& ctx) {
    ct::CellScope scope;
    const V3 T(k.tr[0], k.tr[1], k.tr[2]);
    const ld s = 3.0;  // tissue size scale
    std::vector<std::string> dirs;
    struct Rm {
        std::vector<std::string>* d;
        ~Rm() {
            for (auto& x : *d) {
                std::error_code ec;
                std::filesystem::remove_all(x, ec);
            }
        }
    } rm{&dirs};
    auto make = [&](int which) -> std::unique_ptr<sk::test_solver> {
        tg::Tissue t = k.tissue;
        uint64_t ns = k.nseed + 977 * which;
        for (auto& cd : t.cells)
            for (size_t i = 0; i < cd.mesh.nn(); i++)
                for (int q = 0; q < 3; q++) {
                    double& x = cd.mesh.xyz[3 * i + q];
                    if (which == 1) x = x + k.tr[q];  // the translated tissue (coordinates rounded as an input file would be)
                    if (which >= 2) {
                        // representation-error-sized noise: what rounding x + T to a double does to the geometry
                        const double mag = std::max(std::fabs(x), std::fabs(x + k.tr[q]));
                        x = x + u11(ns) * mag * 2.2e-16;
                    }
                }
        tg::Built b = tg::build(t, 10., 1., &scope);
        if (k.rough)
            for (size_t i = 0; i < b.cells.size(); i++) ct::leave_free_slots(b.cells[i], 3 + (int)((k.rough >> (i % 8)) % 5), k.rough + 7919 * i);
        for (auto& ty : b.types) {
            ty->bulk_modulus_ = 1.0;
            ty->avg_growth_rate_ = 0;
        }
        for (auto& c : b.cells) {
            c->initialize_random_properties();
            c->set_growth_rate(k.growth * c->get_volume());
        }
        std::string dir = sk::scratch_dir("c14_" + std::to_string(which));
        dirs.push_back(dir);
        global_simulation_parameters sp = sk::basic_params(dir, t.edge);
        sp.time_step_ = k.dt;
        if (getenv("VERIF_C14_NOCONTACT")) sp.contact_cutoff_adhesion_ = sp.contact_cutoff_repulsion_ = 1e-9 * t.edge;
        if (getenv("VERIF_C14_NOREFINE")) sp.min_edge_len_ = 1e-3 * t.edge;
        return std::unique_ptr<sk::test_solver>(new sk::test_solver(sp, b.cells, 1));
    };
    std::unique_ptr<sk::test_solver> A, B, N1, N2;
    try {
        A = make(0), B = make(1), N1 = make(2), N2 = make(3);
    } catch (const std::exception& e) {
        return std::string("construction failed: ") + e.what();
    }
    struct Keep {
        std::vector<sk::test_solver*> v;
        ct::CellScope* sc;
        ~Keep() {
            for (auto* s2 : v) sc->add(s2->cells());
        }
    } keep{{A.get(), B.get(), N1.get(), N2.get()}, &scope};
    std::ostringstream os;
    os << std::setprecision(12);
    // discrete state of a population
    auto discrete_equal = [](sk::test_solver& X, sk::test_solver& Y) -> std::string {
        if (X.cells().size() != Y.cells().size()) return "different number of cells";
        for (size_t c = 0; c < X.cells().size(); c++) {
            auto &nx = cell_tester::nodes(*X.cells()[c]), &ny = cell_tester::nodes(*Y.cells()[c]);
            auto &fx = cell_tester::faces(*X.cells()[c]), &fy = cell_tester::faces(*Y.cells()[c]);
            if (X.cells()[c]->get_id() != Y.cells()[c]->get_id()) return "different cell ids";
            if (nx.size() != ny.size() || fx.size() != fy.size()) return "different number of node / face slots in cell " + std::to_string(c);
            for (size_t i = 0; i < nx.size(); i++)
                if (nx[i].is_used() != ny[i].is_used()) return "different live-node pattern in cell " + std::to_string(c);
            for (size_t i = 0; i < fx.size(); i++) {
                if (fx[i].is_used() != fy[i].is_used()) return "different live-face pattern in cell " + std::to_string(c);
                if (fx[i].is_used() && cell_tester::face_ids(fx[i]) != cell_tester::face_ids(fy[i])) return "different triangles in cell " + std::to_string(c);
            }
        }
        return "";
    };
    // decision quantities of the refiner close to their thresholds in the reference state (tie filter)
    auto near_tie = [&](sk::test_solver& X) -> bool {
        const double lmin = X.params().min_edge_len_, lmax = 3 * lmin;
        const ld qmin = 36 / sqrtl(3.0L);
        for (auto& c : X.cells()) {
            TriMesh m = ct::snapshot(*c);
            for (size_t t = 0; t < m.nt(); t++) {
                V3 a = m.p(m.tri[3 * t]), b = m.p(m.tri[3 * t + 1]), cc = m.p(m.tri[3 * t + 2]);
                ld l[3] = {(a - b).norm(), (b - cc).norm(), (cc - a).norm()};
                for (ld x : l)
                    if (fabsl(x - lmin) < 1e-6 * lmin || fabsl(x - lmax) < 1e-6 * lmax) return true;
                ld score = qmin * vg::tri_area(a, b, cc) / ((l[0] + l[1] + l[2]) * (l[0] + l[1] + l[2]));
                if (fabsl(score - 0.2) < 1e-6) return true;
                if (fabsl(l[0] - l[1]) < 1e-9 * l[0] || fabsl(l[1] - l[2]) < 1e-9 * l[1] || fabsl(l[0] - l[2]) < 1e-9 * l[0]) {
                    if (score < 0.25) return true;  // longest-edge tie in a triangle that is about to be swapped
                }
            }
        }
        return false;
    };
    // decision quantities of the contact phase close to their thresholds: node-face distance vs the cut-offs, node normal . face normal vs
    // cos 90 / cos 45 (pre-filters of the coupling models), node curvature vs the coupling limit
    auto contact_tie = [&](sk::test_solver& X) -> bool {
        const double ca = X.params().contact_cutoff_adhesion_, cr = X.params().contact_cutoff_repulsion_, cm = std::max(ca, cr);
        static const double C90 = std::cos(90 * M_PI / 180.0), C45 = std::cos(45 * M_PI / 180.0);
        auto& cl = X.cells();
        for (size_t c1 = 0; c1 < cl.size(); c1++) {
            const double maxc = cl[c1]->get_cell_type()->surface_coupling_max_curvature_;
            for (auto& n : cell_tester::nodes(*cl[c1])) {
                if (!n.is_used()) continue;
                if (std::isfinite(maxc) && std::fabs(n.get_curvature() - maxc) < 1e-9 * std::fabs(maxc)) return true;
                const V3 p = ct::to_v3(n.pos());
                for (size_t c2 = 0; c2 < cl.size(); c2++) {
                    if (c2 == c1) continue;
                    auto& n2 = cell_tester::nodes(*cl[c2]);
                    for (auto& f : cell_tester::faces(*cl[c2])) {
                        if (!f.is_used()) continue;
                        auto ids = cell_tester::face_ids(f);
                        V3 a = ct::to_v3(n2[ids[0]].pos());
                        if ((a - p).norm() > 4 * cm + 3 * X.params().min_edge_len_ * 3) continue;
                        auto q = vg::closest_on_triangle(p, a, ct::to_v3(n2[ids[1]].pos()), ct::to_v3(n2[ids[2]].pos()));
                        const ld d = sqrtl(q.d2);
                        if (d > 1.5 * cm) continue;
                        if (fabsl(d - ca) < 1e-9 * ca || fabsl(d - cr) < 1e-9 * cr) return true;
                        // (before the first force computation all node normals are exactly zero: every dot product is exactly 0 in every
                        // placement, a deterministic decision and no tie)
                        if (n.get_normal().squared_norm() == 0) continue;
                        const double dot = n.get_normal().dot(f.get_normal());
                        if (std::fabs(dot - C90) < 1e-9 || std::fabs(dot - C45) < 1e-9) return true;
                        for (unsigned id : ids) {
                            if (n2[id].get_normal().squared_norm() == 0) continue;
                            const double dn = n.get_normal().dot(n2[id].get_normal());
                            if (std::fabs(dn - C45) < 1e-9 || std::fabs(dn - C90) < 1e-9) return true;
                        }
                    }
                }
            }
        }
        return false;
    };
    long remesh_ops_seen = 0;
    bool any_contact = false;
    ld worst_rel = 0;
    for (int it = 0; it < k.iterations; it++) {
        std::vector<size_t> faces_before;
        for (auto& c : A->cells()) faces_before.push_back(c->get_nb_of_faces());
        const bool tie_before = near_tie(*A) || contact_tie(*A);
        if (getenv("VERIF_DEBUG")) {
            // contact forces of the two placements on clones of the current states
            std::vector<cell_ptr> ca = tg::clone(A->cells(), &scope), cb = tg::clone(B->cells(), &scope);
            for (auto* v : {&ca, &cb})
                for (auto& c : *v) {
                    c->update_all_face_normals_and_areas();
                    for (auto& n : cell_tester::nodes(*c)) cell_tester::force(n).reset();
                }
            dbg_model_t ma(A->params()), mb(B->params());
            ma.run(ca), mb.run(cb);
            ld worst = 0, fmax = 0;
            size_t wc = 0, wn = 0;
            for (size_t c = 0; c < ca.size(); c++) {
                auto &x = cell_tester::nodes(*ca[c]), &y = cell_tester::nodes(*cb[c]);
                for (size_t i = 0; i < x.size(); i++) {
                    ld d = (ct::to_v3(x[i].force()) - ct::to_v3(y[i].force())).norm();
                    fmax = std::max(fmax, ct::to_v3(x[i].force()).norm());
                    if (d > worst) worst = d, wc = c, wn = i;
                }
            }
            fprintf(stderr, "before iteration %d: max contact force %Lg, largest difference between placements %Lg (cell %zu node %zu)\n", it, fmax, worst, wc, wn);
            if (worst > 1e-9 * fmax) {
                auto &x = cell_tester::nodes(*ca[wc])[wn], &y = cell_tester::nodes(*cb[wc])[wn];
                fprintf(stderr, "   force A (%g,%g,%g) B (%g,%g,%g) pos A (%.17g,%.17g,%.17g)\n", x.force().dx(), x.force().dy(), x.force().dz(), y.force().dx(), y.force().dy(), y.force().dz(),
                        x.pos().dx(), x.pos().dy(), x.pos().dz());
            }
        }
        try {
            A->run_iteration();
            B->run_iteration();
            N1->run_iteration();
            N2->run_iteration();
        } catch (const std::exception& e) {
            ctx.count("ended_by_solver_exception");
            return "";
        }
        for (size_t c = 0; c < A->cells().size() && c < faces_before.size(); c++)
            if (A->cells()[c]->get_nb_of_faces() != faces_before[c]) remesh_ops_seen++;
        std::string dn1 = discrete_equal(*A, *N1), dn2 = discrete_equal(*A, *N2), db = discrete_equal(*A, *B);
        if (!dn1.empty() || !dn2.empty()) {
            // rounding-sized noise alone changes a discrete decision: the configuration sits on a tie
            ctx.count("tie_inconclusive_noise_run_diverged");
            return "";
        }
        if (!db.empty()) {
            if (tie_before || near_tie(*A)) {
                ctx.count("tie_inconclusive_threshold");
                return "";
            }
            os << "iteration " << it << ": translated run has " << db << " (translation class " << TC[k.tclass] << ", T = (" << k.tr[0] << "," << k.tr[1] << "," << k.tr[2] << "))";
            return os.str();
        }
        // continuous comparison with the noise-calibrated tolerance
        ld noise = 0, dev = 0, noiseV = 0, devV = 0, noiseP = 0, devP = 0;
        size_t worst_cell = 0, worst_node = 0;
        for (size_t c = 0; c < A->cells().size(); c++) {
            auto &na = cell_tester::nodes(*A->cells()[c]), &nb = cell_tester::nodes(*B->cells()[c]);
            auto &n1 = cell_tester::nodes(*N1->cells()[c]), &n2 = cell_tester::nodes(*N2->cells()[c]);
            for (size_t i = 0; i < na.size(); i++) {
                if (!na[i].is_used()) continue;
                V3 a = ct::to_v3(na[i].pos());
                {
                    const ld dd = (ct::to_v3(nb[i].pos()) - a - T).norm();
                    if (dd > dev) dev = dd, worst_cell = c, worst_node = i;
                }
                noise = std::max(noise, std::max((ct::to_v3(n1[i].pos()) - a).norm(), (ct::to_v3(n2[i].pos()) - a).norm()));
#if CONTACT_MODEL_INDEX != 0
                if (na[i].is_coupled()) any_contact = true;
#endif
            }
            if (A->cells()[c]->get_nb_of_faces() < 10 || !(A->cells()[c]->get_volume() > 1e-9 * s * s * s)) {
                // remeshing has collapsed a cell that is of the order of l_min (a small nucleus) to (almost) nothing: zero volume, infinite pressure;
                // the solver would remove such a cell by its minimum volume - outside the domain, the case ends here
                ctx.count("ended_cell_collapsed_by_remeshing");
                return "";
            }
            const ld Va = A->cells()[c]->get_volume(), Pa = A->cells()[c]->get_pressure();
            devV = std::max(devV, fabsl(B->cells()[c]->get_volume() - Va) / Va);
            noiseV = std::max(noiseV, std::max(fabsl(N1->cells()[c]->get_volume() - Va), fabsl(N2->cells()[c]->get_volume() - Va)) / Va);
            devP = std::max(devP, fabsl(B->cells()[c]->get_pressure() - Pa));
            noiseP = std::max(noiseP, std::max(fabsl(N1->cells()[c]->get_pressure() - Pa), fabsl(N2->cells()[c]->get_pressure() - Pa)));
        }
        if (getenv("VERIF_DEBUG")) {
            fprintf(stderr, "after iteration %d: dev %Lg noise %Lg devV %Lg devP %Lg (worst cell %zu node %zu); classes:", it, dev, noise, devV, devP, worst_cell, worst_node);
            for (auto& c : A->cells()) fprintf(stderr, " %d", (int)c->get_cell_type_id());
            fprintf(stderr, "\n");
            for (size_t c = 0; c < A->cells().size(); c++)
                fprintf(stderr, "   cell %zu: V A %.17g B %.17g N1 %.17g | P A %.6g B %.6g | Vt A %.6g B %.6g | faces %zu free %zu\n", c, A->cells()[c]->get_volume(), B->cells()[c]->get_volume(), N1->cells()[c]->get_volume(),
                        A->cells()[c]->get_pressure(), B->cells()[c]->get_pressure(), A->cells()[c]->get_target_volume(), B->cells()[c]->get_target_volume(), A->cells()[c]->get_nb_of_faces(),
                        cell_tester::free_faces(*A->cells()[c]).size());
        }
        const ld D = T.norm() + 4 * s;
        ld tol = std::max<ld>(1e-12 * s, 1e4 * noise);
        if (tol > 1e-5 * s) {
            ctx.count("noise_amplified_beyond_cap_inconclusive");
            return "";
        }
        // the translated run also pays the conditioning of the origin-anchored volume: relative error F eps (D/s)^3 on V, hence K * that on P,
        // integrated over the iterations done so far
        const ld relV = 512 * 80 * EPS * powl(1 + D / s, 3);  // error model of the origin-anchored volume with a safety factor: it gives the expected size, not a bound
        tol = std::max(tol, relV * s * (it + 1));
        worst_rel = std::max(worst_rel, dev / s);
        if (dev > tol && getenv("VERIF_DEBUG")) {
            auto& na = cell_tester::nodes(*A->cells()[worst_cell]);
            auto& nb2 = cell_tester::nodes(*B->cells()[worst_cell]);
            fprintf(stderr, "worst: cell %zu (class %d) node %zu\n", worst_cell, (int)A->cells()[worst_cell]->get_cell_type_id(), worst_node);
            {
                auto& n1x = cell_tester::nodes(*N1->cells()[worst_cell]);
                auto pa = na[worst_node].pos(), pb = nb2[worst_node].pos(), pn = n1x[worst_node].pos();
                fprintf(stderr, "   A   (%.17g, %.17g, %.17g)\n   B-T (%.17g, %.17g, %.17g)\n   N1  (%.17g, %.17g, %.17g)\n", pa.dx(), pa.dy(), pa.dz(), pb.dx() - k.tr[0], pb.dy() - k.tr[1], pb.dz() - k.tr[2],
                        pn.dx(), pn.dy(), pn.dz());
                fprintf(stderr, "   faces of that cell: A %zu B %zu, node slots %zu\n", A->cells()[worst_cell]->get_nb_of_faces(), B->cells()[worst_cell]->get_nb_of_faces(), na.size());
                size_t nbad = 0;
                for (size_t i = 0; i < na.size(); i++)
                    if (na[i].is_used() && (ct::to_v3(nb2[i].pos()) - ct::to_v3(na[i].pos()) - T).norm() > 1e-12) nbad++;
                fprintf(stderr, "   nodes of that cell deviating by more than 1e-12: %zu of %zu\n", nbad, na.size());
                // candidate faces of the other cells around that node: distance and the decision quantities of the contact pre-filter
                const double cut = std::max(A->params().contact_cutoff_adhesion_, A->params().contact_cutoff_repulsion_);
                for (size_t c2 = 0; c2 < A->cells().size(); c2++) {
                    if (c2 == worst_cell) continue;
                    for (auto& f : cell_tester::faces(*A->cells()[c2])) {
                        if (!f.is_used()) continue;
                        auto ids = cell_tester::face_ids(f);
                        auto& n2 = cell_tester::nodes(*A->cells()[c2]);
                        auto cl = vg::closest_on_triangle(ct::to_v3(na[worst_node].pos()), ct::to_v3(n2[ids[0]].pos()), ct::to_v3(n2[ids[1]].pos()), ct::to_v3(n2[ids[2]].pos()));
                        if (sqrtl(cl.d2) < 1.5 * cut)
                            fprintf(stderr, "   face of cell %zu at distance %.17Lg (cut-off %.17g): node normal . face normal = %.3e (A) %.3e (B), curvature %.6g\n", c2, sqrtl(cl.d2), cut,
                                    na[worst_node].get_normal().dot(f.get_normal()), nb2[worst_node].get_normal().dot(f.get_normal()), na[worst_node].get_curvature());
                    }
                }
            }
#if CONTACT_MODEL_INDEX == 1
            for (size_t c = 0; c < A->cells().size(); c++) {
                auto &x = cell_tester::nodes(*A->cells()[c]), &y = cell_tester::nodes(*B->cells()[c]);
                size_t ndiff = 0, ncoup = 0;
                for (size_t i = 0; i < x.size(); i++) {
                    if (!x[i].is_used()) continue;
                    ncoup += x[i].is_coupled();
                    if (x[i].is_coupled() != y[i].is_coupled() || (x[i].is_coupled() && x[i].get_coupled_node() != y[i].get_coupled_node())) {
                        if (ndiff < 5) fprintf(stderr, "  cell %zu node %zu: coupled A=%d B=%d", c, i, (int)x[i].is_coupled(), (int)y[i].is_coupled());
                        if (ndiff < 5 && x[i].is_coupled()) fprintf(stderr, " A->(%u,%u)", x[i].get_coupled_node().first, x[i].get_coupled_node().second);
                        if (ndiff < 5 && y[i].is_coupled()) fprintf(stderr, " B->(%u,%u)", y[i].get_coupled_node().first, y[i].get_coupled_node().second);
                        if (ndiff < 5) fprintf(stderr, "\n");
                        ndiff++;
                    }
                }
                fprintf(stderr, "  cell %zu: %zu coupled nodes, %zu coupled differently in the translated run\n", c, ncoup, ndiff);
            }
            (void)na, (void)nb2;
#endif
        }
        if (dev > tol && tie_before) {
            // a decision of this iteration sat on its threshold in the reference state: which side rounding pushes it to is not constrained
            ctx.count("tie_inconclusive_threshold");
            return "";
        }
        if (dev > tol) {
            os << "iteration " << it << ": a node of the translated run is " << (double)dev << " away from the translated position of the reference node (tolerance " << (double)tol
               << ", response to rounding noise " << (double)noise << ", translation class " << TC[k.tclass] << ")";
            return os.str();
        }
        if (devV > std::max<ld>(1e4 * noiseV, 1e-12) + 4 * relV) {
            os << "iteration " << it << ": cell volume differs by " << (double)devV << " (relative) between the translated and the reference run";
            return os.str();
        }
        if (devP > std::max<ld>(1e4 * noiseP, 1e-12) + 4 * relV * (1 + (it + 1))) {
            os << "iteration " << it << ": cell pressure differs by " << (double)devP << " between the translated and the reference run";
            return os.str();
        }
    }
    ctx.count(std::string("translation_") + TC[k.tclass]);
    if (any_contact) ctx.count("with_couplings");
    if (remesh_ops_seen) ctx.count("with_remeshing");
    ctx.count("iterations", k.iterations);
    if ((any_contact || A->cells().size() > 1) && k.tclass != 0) {
        ctx.nontriv();
        std::ostringstream s2;
        s2 << k.tissue.note << " cells=" << A->cells().size() << " T=(" << k.tr[0] << "," << k.tr[1] << "," << k.tr[2] << ") " << TC[k.tclass] << " iterations=" << k.iterations
           << " max deviation/size=" << (double)worst_rel << (remesh_ops_seen ? " remeshed" : "");
        ctx.sample(s2.str());
    }
    return "";
}


// ------------------------------------------------------------------------------------------------ division
// One division of a cell that is in the state the solver divides cells in (cached areas / normals / centroid one time step old,
// nodes already moved by the integration) against the division of its translated copy, with identical sampling seeds.
#include "cell_divider.hpp"
#include "local_mesh_refiner.hpp"

struct DCase {
    TriMesh mesh;          // reference placement
    double tr[3] = {0, 0, 0};
    int tclass = 0;
    double swell = 1.03;   // the step between the cached state and the division: nodes scaled about the centroid (growth)
    double squash = 1.0;   // and stretched along x (shape change, so that the area does not scale like the volume)
    double lmin_f = 0.15;
    uint64_t seed = 1;
    void write(vf::Writer& w) const {
        mg::write_mesh(w, mesh);
        for (double v : tr) w.d(v);
        w.i(tclass), w.d(swell), w.d(squash), w.d(lmin_f), w.u(seed);
        w.nl();
    }
    static DCase read(vf::Reader& r) {
        DCase c;
        c.mesh = mg::read_mesh(r);
        for (double& v : c.tr) v = r.d();
        c.tclass = (int)r.i(), c.swell = r.d(), c.squash = r.d(), c.lmin_f = r.d(), c.seed = r.u();
        return c;
    }
};

static rc::Gen<DCase> genD() {
    using namespace vf;
    return rc::gen::exec([]() {
        DCase c;
        mg::ShapeSpec s;
        s.family = 3, s.param = *irange(1, 2);
        s.sx = *uniform(1.25, 1.9), s.sy = *uniform(0.75, 1.1), s.sz = *uniform(0.75, 1.1);  // a unique longest axis
        s.bump_amp = *uniform(-0.15, 0.15), s.bump_k = *irange(1, 3);
        s.noise = *uniform(0.0, 0.08);
        for (int i = 0; i < 12; i++) s.noise_v.push_back(*uniform(-1, 1));
        mg::Placement pl;
        pl.q[0] = *uniform(-1, 1), pl.q[1] = *uniform(-1, 1), pl.q[2] = *uniform(-1, 1), pl.q[3] = *uniform(-1, 1);
        pl.scale = *rc::gen::element(1.0, 1.0, 1e-5, 7.0);
        const double size = 2 * pl.scale;
        for (double& v : pl.t) v = *uniform(-1, 1) * 2 * size;
        pl.t[0] += 3 * size;
        c.mesh = mg::place(mg::build_shape(s), pl);
        c.tclass = *rc::gen::element(0, 1, 1, 2, 2, 3, 5);
        V3 d(*uniform(-1, 1), *uniform(-1, 1), *uniform(-1, 1));
        if (d.norm() < 1e-2) d = V3(1, 0, 0);
        d = d * (1 / d.norm());
        V3 cen = vg::vertex_mean(c.mesh);
        switch (c.tclass) {
            case 0: d = d * (0.4 * size); break;
            case 1: d = d * (10 * size); break;
            case 2: d = d * (100 * size); break;
            case 3: d = cen * (-2.0L); break;
            default: d = d * (1000 * size); break;
        }
        c.tr[0] = (double)d.x, c.tr[1] = (double)d.y, c.tr[2] = (double)d.z;
        c.swell = *rc::gen::element(1.0, 1.01, 1.03, 1.06, 0.97);
        c.squash = *rc::gen::element(1.0, 1.02, 1.05, 0.96);
        c.lmin_f = *uniform(0.05, 0.3);
        c.seed = (uint64_t)*irange(1, 1 << 30);
        return c;
    });
}

static uint64_t g_div_seed = 1;
static uint64_t div_seed() { return g_div_seed; }

struct DivOut {
    bool ok = false;
    ld v[2] = {0, 0};
    V3 c[2];
    size_t faces[2] = {0, 0};
};

static std::string runD(const DCase& k, vf::Ctx& ctx) {
    ct::CellScope scope;
    const ld size = vg::mesh_size(k.mesh);
    const ld emin = vg::min_edge(k.mesh), emax = vg::max_edge(k.mesh);
    ld lo = emax / 3 * 1.02, hi = emin * 0.98;
    const double lmin = (double)(lo <= hi ? lo + (hi - lo) * ((k.lmin_f - 0.05) / 0.25) : std::min<ld>(hi, std::max<ld>(lo * 0.6, emin * 0.6)));
    // which: 0 reference, 1 translated, 2.. reference with representation-error-sized noise
    auto divide = [&](int which, DivOut& out) -> std::string {
        TriMesh m = k.mesh;
        uint64_t ns = k.seed * 31 + 977 * which;
        for (size_t i = 0; i < m.xyz.size(); i++) {
            double& x = m.xyz[i];
            if (which == 1) x = x + k.tr[i % 3];
            if (which >= 2) x = x + u11(ns) * std::max(std::fabs(x), std::fabs(x + k.tr[i % 3])) * 2.2e-16;
        }
        auto type = ct::default_cell_type(3);
        std::shared_ptr<epithelial_cell> c;
        try {
            c = ct::make_cell<epithelial_cell>(m, 5, type);
        } catch (const std::exception& e) {
            return std::string("cell rejects generated mesh: ") + e.what();
        }
        scope.add(c);
        c->set_target_volume(c->get_volume());
        // the state in which the solver divides: caches filled by the force computation of the previous iteration ...
        c->apply_internal_forces(0.);
        // ... and the nodes moved by the integration since (growth and a change of shape)
        V3 g;
        size_t n = 0;
        for (auto& nd : cell_tester::nodes(*c))
            if (nd.is_used()) g = g + ct::to_v3(nd.pos()), n++;
        g = g * ((ld)1 / n);
        for (auto& nd : cell_tester::nodes(*c)) {
            if (!nd.is_used()) continue;
            V3 r = (ct::to_v3(nd.pos()) - g) * (ld)k.swell;
            r.x *= (ld)k.squash;
            cell_tester::pos(nd) = ct::to_vec3(g + r);
            cell_tester::force(nd).reset();
        }
        local_mesh_refiner lmr(lmin, 3 * lmin, true);
        g_div_seed = k.seed;
        simucell3d_verif::seed_source() = div_seed;
        srand((unsigned)k.seed);
        auto res = cell_divider::divide_cell(c, lmin, lmr);
        simucell3d_verif::seed_source() = nullptr;
        out.ok = res.has_value();
        if (out.ok) {
            scope.add(res->first), scope.add(res->second);
            cell_ptr d[2] = {res->first, res->second};
            for (int i = 0; i < 2; i++) {
                TriMesh dm = ct::snapshot(*d[i]);
                out.v[i] = fabsl(vg::signed_volume(dm));
                out.c[i] = vg::vertex_mean(dm);
                out.faces[i] = d[i]->get_nb_of_faces();
            }
        }
        return "";
    };
    DivOut A, B, N1, N2;
    std::string m;
    if (!(m = divide(0, A)).empty() || !(m = divide(1, B)).empty() || !(m = divide(2, N1)).empty() || !(m = divide(3, N2)).empty()) return m;
    std::ostringstream os;
    os << std::setprecision(10);
    ctx.count(std::string("division_translation_") + TC[k.tclass]);
    if (N1.ok != A.ok || N2.ok != A.ok) {
        ctx.count("division_outcome_flipped_by_rounding_noise_inconclusive");
        return "";
    }
    if (A.ok != B.ok) {
        os << "the " << (A.ok ? "reference" : "translated") << " cell divides, the " << (A.ok ? "translated" : "reference") << " one does not (translation class " << TC[k.tclass]
           << ", T = (" << k.tr[0] << "," << k.tr[1] << "," << k.tr[2] << "))";
        return os.str();
    }
    if (!A.ok) {
        ctx.count("division_failed_in_both");
        return "";
    }
    const V3 T(k.tr[0], k.tr[1], k.tr[2]);
    // daughters are returned in the same order (same side of the same plane)
    auto frac = [](const DivOut& o) { return o.v[0] / (o.v[0] + o.v[1]); };
    const ld fA = frac(A), fB = frac(B), noise_f = std::max(fabsl(frac(N1) - fA), fabsl(frac(N2) - fA));
    ld noise_c = 0, dev_c = 0;
    for (int i = 0; i < 2; i++) {
        noise_c = std::max(noise_c, std::max((N1.c[i] - A.c[i]).norm(), (N2.c[i] - A.c[i]).norm()));
        dev_c = std::max(dev_c, (B.c[i] - A.c[i] - T).norm());
    }
    // rounding can flip single decisions of the surface reconstruction: a couple of triangles, far below these bounds
    const ld tol_f = std::max<ld>(0.02, 20 * noise_f), tol_c = std::max<ld>(0.05 * size, 20 * noise_c);
    if (fabsl(fA - fB) > tol_f) {
        os << "daughter 1 takes " << (double)fA << " of the volume in the reference run and " << (double)fB << " in the translated run (rounding noise moves it by " << (double)noise_f
           << "; translation class " << TC[k.tclass] << ", cached area one step old: nodes scaled by " << k.swell << " and stretched by " << k.squash << " since)";
        return os.str();
    }
    if (dev_c > tol_c) {
        os << "a daughter of the translated run sits " << (double)dev_c << " away from the translated daughter of the reference run (cell size " << (double)size << ", rounding noise "
           << (double)noise_c << ", translation class " << TC[k.tclass] << ")";
        return os.str();
    }
    if (A.faces[0] == B.faces[0] && A.faces[1] == B.faces[1]) ctx.count("division_identical_face_counts");
    if (k.swell != 1.0 || k.squash != 1.0) ctx.count("division_with_stale_caches");
    if (k.tclass != 0) {
        ctx.nontriv();
        std::ostringstream s2;
        s2 << "division tris=" << k.mesh.nt() << " " << TC[k.tclass] << " swell=" << k.swell << " squash=" << k.squash << " fraction " << (double)fA << " vs " << (double)fB;
        ctx.sample(s2.str());
    }
    return "";
}

int main(int argc, char** argv) {
    std::vector<vf::Sub> subs;
    subs.push_back(vf::make_sub<Case>("lockstep", genCase, run));
    subs.push_back(vf::make_sub<DCase>("division", genD, runD));
    return vf::engine_main(argc, argv, "C14_translate", subs);
}
