// C08 — cell identities and cross-references stay valid as the population changes.
// A real solver is stepped through generated histories of growth-driven divisions and below-minimum-volume removals;
// after every iteration the identity / reference invariants are recomputed from outside. The sanitizer build catches a
// stale reference at the point of use inside the iteration.
#include "common/engine.hpp"
#include "common/solverkit.hpp"
#include "common/tissuegen.hpp"
#include "common/polygen.hpp"

#include "simulation_initializer.hpp"

using namespace vg;

enum { STEP = 0, SHRINK = 1, INFLATE = 2 };
struct Op {
    int kind = 0;
    unsigned k = 0;
    int n = 1;
};
struct Case {
    tg::Tissue tissue;
    std::vector<Op> ops;
    int threads = 1;
    int face_types = 3;
    int face_types2 = 0;  // > 0: a SECOND epithelial cell type (same global id 0, listed after the first) with this many face types; every
                          // other epithelial cell belongs to it
    void write(vf::Writer& w) const {
        tissue.write(w);
        w.i(threads), w.i(face_types), w.u(ops.size());
        w.nl();
        for (auto& o : ops) w.i(o.kind), w.u(o.k), w.i(o.n);
        w.nl();
        w.i(face_types2);
        w.nl();
    }
    static Case read(vf::Reader& r) {
        Case c;
        c.tissue = tg::Tissue::read(r);
        c.threads = (int)r.i(), c.face_types = (int)r.i();
        size_t n = r.u();
        for (size_t i = 0; i < n; i++) {
            Op o;
            o.kind = (int)r.i(), o.k = (unsigned)r.u(), o.n = (int)r.i();
            c.ops.push_back(o);
        }
        if (r.more()) c.face_types2 = (int)r.i();
        return c;
    }
};

static rc::Gen<Case> genCase() {
    using namespace vf;
    return rc::gen::exec([]() {
        Case c;
        // mostly epithelial clusters/chains in contact so that couplings exist; sometimes mixed classes
        c.tissue = *tg::genTissue(6, 1, *irange(0, 3) == 0 ? 0 : 1, false);
        c.threads = *rc::gen::element(1, 1, 2, 4);
        // 1..4 face types per cell type; the population enters the solver through the real start-up validation (see startup_gate),
        // which is expected to refuse what the polarisation code cannot index
        c.face_types = *rc::gen::element(1, 2, 3, 3, 3, 4);
        c.face_types2 = *rc::gen::element(0, 0, 1, 2, 3, 4);
        auto genOp = rc::gen::exec([]() {
            Op o;
            o.kind = *rc::gen::weightedElement<int>({{6, STEP}, {2, SHRINK}, {2, INFLATE}});
            o.k = (unsigned)*irange(0, 1000);
            o.n = *rc::gen::element(1, 1, 2, 5);
            return o;
        });
        c.ops = *rc::gen::container<std::vector<Op>>(genOp);
        return c;
    });
}

struct Tracker {
    std::set<unsigned> ever;
    unsigned max_seen = 0;
    bool first = true;
};

static std::string invariants(sk::test_solver& S, Tracker& tr, bool population_changed_this_iteration) {
    std::ostringstream os;
    auto& cl = S.cells();
    std::set<unsigned> ids;
    for (size_t i = 0; i < cl.size(); i++) {
        cell& C = *cl[i];
        if (C.get_local_id() != i) {
            os << "cell at position " << i << " of the population list carries position index " << C.get_local_id() << " (id " << C.get_id() << ")";
            return os.str();
        }
        if (!ids.insert(C.get_id()).second) {
            os << "two cells share the id " << C.get_id();
            return os.str();
        }
    }
    for (unsigned id : ids)
        if (!tr.ever.count(id)) {
            if (!tr.first && id <= tr.max_seen) {
                os << "new cell id " << id << " is not larger than every id seen before (" << tr.max_seen << "): ids must never be reused";
                return os.str();
            }
        }
    for (unsigned id : ids) tr.ever.insert(id), tr.max_seen = std::max(tr.max_seen, id);
    tr.first = false;
    for (size_t i = 0; i < cl.size(); i++) {
        cell& C = *cl[i];
        auto& fl = cell_tester::faces(C);
        const size_t nft = C.get_cell_type()->face_types_.size();
        for (size_t f = 0; f < fl.size(); f++) {
            if (!fl[f].is_used()) continue;
            if (cell_tester::face_owner(fl[f]) != &C) {
                os << "face " << f << " of cell id " << C.get_id() << " has another owner cell";
                return os.str();
            }
            if (cell_tester::face_type(fl[f]) >= nft) {
                os << "face " << f << " of cell id " << C.get_id() << " has face-type index " << cell_tester::face_type(fl[f]) << " but its cell type has " << nft << " face types";
                return os.str();
            }
        }
        if (population_changed_this_iteration) continue;  // couplings are rebuilt by the next contact phase before any use
#if CONTACT_MODEL_INDEX == 1
        auto& nl = cell_tester::nodes(C);
        for (size_t n = 0; n < nl.size(); n++) {
            if (!nl[n].is_used() || !nl[n].is_coupled()) continue;
            auto [cj, nj] = nl[n].get_coupled_node();
            if (cj >= cl.size() || cj == i) {
                os << "node " << n << " of cell at position " << i << " is coupled to cell position " << cj << " (population size " << cl.size() << ")";
                return os.str();
            }
            auto& ol = cell_tester::nodes(*cl[cj]);
            if (nj >= ol.size() || !ol[nj].is_used()) {
                os << "node " << n << " of cell at position " << i << " is coupled to node " << nj << " of cell position " << cj << " which is not a live node";
                return os.str();
            }
        }
#elif CONTACT_MODEL_INDEX == 2
        auto& nl = cell_tester::nodes(C);
        for (size_t n = 0; n < nl.size(); n++) {
            if (!nl[n].is_used()) continue;
            for (auto& kv : cell_tester::coupled_map(nl[n])) {
                if (kv.first >= cl.size() || kv.first == i) return "node coupled to a cell position out of range or to its own cell";
                auto& ol = cell_tester::nodes(*cl[kv.first]);
                if (kv.second.first >= ol.size() || !ol[kv.second.first].is_used()) return "node coupled to a node that is not live";
            }
        }
#endif
    }
    return "";
}

// The cell types reach the solver the way a user's do: through simulation_initializer (structure-based constructor, no
// triangulation), with the tissue written as an input mesh. Returns false when start-up refuses the parameter set.
static bool startup_gate(const Case& k, const tg::Built& b, const global_simulation_parameters& sp0, const std::string& dir, std::string& why, ct::CellScope& scope) {
    std::filesystem::create_directories(dir);
    std::vector<pg::VtkCell> cells;
    for (size_t i = 0; i < k.tissue.cells.size(); i++) {
        pg::VtkCell vc;
        vc.poly = pg::from_trimesh(k.tissue.cells[i].mesh);
        vc.type_id = 0;
        for (size_t t = 0; t < b.types.size(); t++)
            if (b.types[t] == b.cells[i]->get_cell_type()) vc.type_id = (short)t;
        cells.push_back(vc);
    }
    pg::write_vtk(dir + "/gate.vtk", cells);
    global_simulation_parameters sp = sp0;
    sp.input_mesh_path_ = dir + "/gate.vtk";
    sp.perform_initial_triangulation_ = false;
    std::vector<cell_type_param_ptr> types(b.types.begin(), b.types.end());
    try {
        simulation_initializer init(sp, types, false);
        scope.add(init.get_cell_lst());
        return true;
    } catch (const std::exception& e) {
        why = e.what();
        return false;
    }
}

static std::string run(const Case& k, vf::Ctx& ctx) {
    ct::CellScope scope;
    tg::Built b;
    try {
        b = tg::build(k.tissue, 10., 1., &scope);
    } catch (const std::exception& e) {
        return std::string("tissue generator produced a cell the code rejects: ") + e.what();
    }
    // volumes: divisions above 1.6 mean volume, removal below 0.25 mean volume
    double vmean = 0;  // median volume (an enclosing ECM shell must not set the scale)
    {
        std::vector<double> vs;
        for (auto& c : b.cells) vs.push_back(c->get_volume());
        std::sort(vs.begin(), vs.end());
        vmean = vs[vs.size() / 2];
    }
    for (auto& t : b.types) {
        t->avg_division_vol_ = 1.6 * vmean;
        t->std_division_vol_ = 0;
        t->min_vol_ = 0.4 * vmean;
        t->bulk_modulus_ = 1.0;
        t->face_types_.resize(std::max<size_t>(1, (size_t)k.face_types), t->face_types_[0]);
    }
    if (k.face_types2 > 0) {
        // second epithelial parameter set (the mesh picks the parameter set of a cell by its position in the list, the global id only picks
        // the class): listed right after the first one, used by every other epithelial cell
        std::shared_ptr<cell_type_parameters> epi, epi2;
        size_t pos = 0;
        for (size_t t = 0; t < b.types.size(); t++)
            if (b.types[t]->global_type_id_ == 0) epi = b.types[t], pos = t;
        if (epi) {
            epi2 = std::make_shared<cell_type_parameters>(*epi);
            epi2->name_ = "epithelial_2";
            epi2->face_types_.resize((size_t)k.face_types2, epi->face_types_[0]);
            b.types.insert(b.types.begin() + pos + 1, epi2);
            int seen = 0;
            for (size_t i = 0; i < b.cells.size(); i++) {
                if (k.tissue.cells[i].cls != 0) continue;
                if (seen++ % 2 == 0) continue;
                cell_ptr c = ct::make_cell_of_class(0, k.tissue.cells[i].mesh, b.cells[i]->get_id(), epi2);
                c->set_local_id((unsigned)i);
                scope.add(c);
                b.cells[i] = c;
            }
            ctx.count("two_epithelial_cell_types");
        }
    }
    for (auto& c : b.cells) c->initialize_random_properties();
    const std::string out = sk::scratch_dir("c08");
    global_simulation_parameters sp = sk::basic_params(out, k.tissue.edge);
    {
        std::string why;
        const bool ok = startup_gate(k, b, sp, out, why, scope);
        std::error_code ec;
        std::filesystem::remove_all(out, ec);
        if (!ok) {
            ctx.count("parameter_set_refused_at_startup");
            if (k.face_types >= 3 && (k.face_types2 == 0 || k.face_types2 >= 3))
                return "start-up refused a parameter set with " + std::to_string(k.face_types) + (k.face_types2 ? "/" + std::to_string(k.face_types2) : std::string()) + " face types per cell type: " + why;
            return "";
        }
        ctx.count("face_types_" + std::to_string(k.face_types) + "_accepted_at_startup");
    }
    std::unique_ptr<sk::test_solver> S;
    try {
        S.reset(new sk::test_solver(sp, b.cells, k.threads));
    } catch (const std::exception& e) {
        return std::string("solver construction failed: ") + e.what();
    }
    struct Cleanup {
        std::string d;
        sk::test_solver* s;
        ct::CellScope* sc;
        ~Cleanup() {
            if (s) sc->add(s->cells());
            std::error_code ec;
            std::filesystem::remove_all(d, ec);
        }
    } cleanup{out, S.get(), &scope};
    Tracker tr;
    std::string m = invariants(*S, tr, false);
    if (!m.empty()) return "initial population: " + m;
    long removals = 0, divisions = 0, mid_removals_then_step = 0, steps = 0;
    bool pending_mid_removal = false, coupled_alive = false;
    std::ostringstream hist;
    for (const Op& o : k.ops) {
        auto& cl = S->cells();
        if (cl.empty()) break;
        if (o.kind == SHRINK) {
            sk::scale_cell(*cl[o.k % cl.size()], 0.72);  // volume x 0.37: below min_vol for a median cell, edges stay above l_min
            hist << "s" << o.k % cl.size() << " ";
            continue;
        }
        if (o.kind == INFLATE) {
            cell& C = *cl[o.k % cl.size()];
            if (C.get_volume() < 3 * vmean) sk::scale_cell(C, 1.36);
            hist << "i" << o.k % cl.size() << " ";
            continue;
        }
        for (int it = 0; it < o.n; it++) {
            if (S->cells().empty()) break;
            std::vector<unsigned> ids_before;
            for (auto& c : S->cells()) ids_before.push_back(c->get_id());
            try {
                S->run_iteration();
            } catch (const std::exception& e) {
                // the solver reports instabilities by exception (main prints them and stops): history ends
                ctx.count("history_ended_by_solver_exception");
                if (getenv("VERIF_DEBUG")) fprintf(stderr, "solver exception at iteration %u: %s\n", S->iteration(), e.what());
                return "";
            }
            steps++;
            if (getenv("VERIF_DEBUG")) {
                fprintf(stderr, "iter %u:", S->iteration());
                for (auto& c : S->cells()) fprintf(stderr, " [id%u loc%u V=%.3g Vt=%.3g div=%.3g min=%.3g]", c->get_id(), c->get_local_id(), c->get_volume(), c->get_target_volume(), c->get_division_volume(), c->get_cell_type()->min_vol_);
                fprintf(stderr, "\n");
            }
            std::vector<unsigned> ids_after;
            for (auto& c : S->cells()) ids_after.push_back(c->get_id());
            const bool changed = ids_before != ids_after;
            if (pending_mid_removal) mid_removals_then_step++, pending_mid_removal = false;
            if (changed) {
                std::set<unsigned> after(ids_after.begin(), ids_after.end()), before(ids_before.begin(), ids_before.end());
                long born = 0, gone = 0;
                for (unsigned id : after) born += !before.count(id);
                for (size_t i = 0; i < ids_before.size(); i++)
                    if (!after.count(ids_before[i])) {
                        gone++;
                        if (i + 1 < ids_before.size()) pending_mid_removal = true;
                    }
                divisions += born / 2;
                removals += gone - born / 2;
                if (born % 2) return "an odd number of new cells appeared in one iteration";
            }
            m = invariants(*S, tr, changed);
            if (!m.empty()) {
                std::ostringstream os;
                os << "after iteration " << S->iteration() << " (history: " << hist.str() << "): " << m;
                return os.str();
            }
#if CONTACT_MODEL_INDEX != 0
            for (auto& c : S->cells())
                for (auto& n : cell_tester::nodes(*c))
                    if (n.is_used() && n.is_coupled()) coupled_alive = true;
#endif
        }
        hist << "S" << o.n << " ";
    }
    ctx.count("iterations", steps);
    ctx.count("divisions", divisions);
    ctx.count("removals", removals);
    if (mid_removals_then_step) ctx.count("history_with_mid_list_removal_then_step");
    if (coupled_alive) ctx.count("history_with_couplings");
    if (mid_removals_then_step && divisions) {
        ctx.nontriv();
        std::ostringstream s2;
        s2 << k.tissue.note << " cells0=" << b.cells.size() << " threads=" << k.threads << " divisions=" << divisions << " removals=" << removals << " hist=" << hist.str();
        ctx.sample(s2.str());
    }
    return "";
}

int main(int argc, char** argv) {
    std::vector<vf::Sub> subs;
    subs.push_back(vf::make_sub<Case>("history", genCase, run));
    return vf::engine_main(argc, argv, "C08_population", subs);
}
