// C15 — results independent of thread count / schedule; parallel errors become exceptions.
//  sub "threads":    non-interacting tissue run with 1..16 threads and generated sleep plans at the hook-H3 scheduling points:
//                    bit-identical positions, momenta, connectivity and statistics (minus the wall-clock column); repeat run identical.
//  sub "divide":     cell_divider::run with T threads and sleep plans vs one cell at a time; the H3 list-access events must never
//                    show a read of the population list while another thread is resizing it.
//  sub "exceptions": parallel_exception_handler itself and its two real users (refine_meshes, mesh_writer::write).
#include <omp.h>

#include <atomic>
#include <thread>

#include <fstream>
#include <sys/wait.h>
#include <unistd.h>

#include "common/engine.hpp"
#include "common/solverkit.hpp"
#include "common/tissuegen.hpp"

#include "cell_divider.hpp"
#include "mesh_writer.hpp"
#include "verif_hooks.hpp"

using namespace vg;

// ------------------------------------------------------------------------------------------ schedule plans (hook H3)
static std::atomic<uint64_t> g_plan_seed{0};
static std::atomic<int> g_plan_max_us{0};
static void sched_cb(const char* tag, size_t index) {
    const int maxus = g_plan_max_us.load();
    if (maxus <= 0) return;
    uint64_t h = g_plan_seed.load() ^ (vf::fnv1a(tag) * 0x9e3779b97f4a7c15ull) ^ (index * 0xbf58476d1ce4e5b9ull);
    h ^= h >> 29;
    h *= 0x94d049bb133111ebull;
    h ^= h >> 32;
    if (h % 3 == 0) return;  // a third of the points do not delay
    std::this_thread::sleep_for(std::chrono::microseconds((h >> 8) % (uint64_t)maxus));
}
// list access detector
static std::atomic<int> g_resizer{-1};
static std::atomic<long> g_overlaps{0}, g_reads{0}, g_resizes{0};
static std::atomic<int> g_window_us{0};
static void list_cb(int ev, const void*) {
    const int me = omp_get_thread_num();
    if (ev == 0) {
        g_reads++;
        const int r = g_resizer.load();
        if (r >= 0 && r != me) g_overlaps++;
    } else if (ev == 1) {
        g_resizes++;
        g_resizer.store(me);
        const int w = g_window_us.load();
        if (w > 0) std::this_thread::sleep_for(std::chrono::microseconds(w));  // hold the window open
    } else {
        g_resizer.store(-1);
    }
}
static uint64_t g_seed_state = 1;
static uint64_t next_seed() {  // only used single-threaded or with divisions whose results are not compared bitwise
    g_seed_state = g_seed_state * 6364136223846793005ull + 1442695040888963407ull;
    return g_seed_state >> 20;
}

// ------------------------------------------------------------------------------------------ threads
struct TCase {
    int ncells = 3, iterations = 10;
    std::vector<double> growth, radius;
    std::vector<int> thread_counts;
    unsigned plan = 1;
    int plan_max_us = 200;
    double lmin_f = 0.5;
    double bending = 0;   // bending modulus of the epithelial face types (the lumen cells have none): cell types with different force terms
    int lumen_first = 0;  // which class comes first in the list
    void write(vf::Writer& w) const {
        w.i(ncells), w.i(iterations), w.vd(growth), w.vd(radius);
        w.u(thread_counts.size());
        for (int t : thread_counts) w.i(t);
        w.u(plan), w.i(plan_max_us), w.d(lmin_f);
        w.d(bending), w.i(lumen_first);
        w.nl();
    }
    static TCase read(vf::Reader& r) {
        TCase c;
        c.ncells = (int)r.i(), c.iterations = (int)r.i(), c.growth = r.vd(), c.radius = r.vd();
        size_t n = r.u();
        for (size_t i = 0; i < n; i++) c.thread_counts.push_back((int)r.i());
        c.plan = (unsigned)r.u(), c.plan_max_us = (int)r.i(), c.lmin_f = r.d();
        if (r.more()) c.bending = r.d(), c.lumen_first = (int)r.i();
        return c;
    }
};
static rc::Gen<TCase> genT() {
    using namespace vf;
    return rc::gen::exec([]() {
        TCase c;
        c.ncells = *irange(2, 7);
        c.iterations = *irange(3, 14);
        for (int i = 0; i < c.ncells; i++) {
            c.growth.push_back(*rc::gen::element(0.0, 40.0, 120.0, -30.0));
            c.radius.push_back(*uniform(0.8, 1.3));
        }
        int nt = *irange(2, 3);
        for (int i = 0; i < nt; i++) c.thread_counts.push_back(*rc::gen::element(2, 3, 5, 8, 16));
        c.plan = (unsigned)*irange(1, 1 << 30);
        c.plan_max_us = *rc::gen::element(0, 100, 400, 1500);
        c.lmin_f = *rc::gen::element(0.5, 0.3, 0.2);  // smaller l_min: edges beyond 3 l_min are split in the first iterations
        c.bending = *rc::gen::element(0.0, 0.02, 0.2);
        c.lumen_first = *irange(0, 1);
        return c;
    });
}
struct Digest {
    std::vector<double> pos, mom;
    std::vector<unsigned> conn;
    std::string stats;
    bool operator==(const Digest& o) const { return pos == o.pos && mom == o.mom && conn == o.conn && stats == o.stats; }
};
static std::string strip_clock(const std::string& s) {  // remove the wall-clock column (2nd) of every row
    std::istringstream is(s);
    std::string line, out;
    while (std::getline(is, line)) {
        size_t a = line.find(','), b = a == std::string::npos ? a : line.find(',', a + 1);
        if (b != std::string::npos) line.erase(a, b - a);
        out += line + "\n";
    }
    return out;
}
static bool run_once(const TCase& k, int threads, int plan_us, Digest& d, ct::CellScope& scope, long& remesh_changes, std::string& err) {
    tg::Tissue t;
    for (int i = 0; i < k.ncells; i++) {
        tg::CellDesc cd;
        cd.cls = ((i % 3 == 1) != (k.lumen_first != 0)) ? 2 : 0;
        cd.mesh = tg::ball(1, k.radius[i], V3(6.0 * (i % 3), 6.0 * (i / 3), 0.4 * i));
        t.cells.push_back(cd);
    }
    t.edge = 0.55;
    tg::Built b = tg::build(t, 10., 1., &scope);
    for (auto& ty : b.types) {
        ty->bulk_modulus_ = 1.0;
        if (ty->global_type_id_ == 0)
            for (auto& ft : ty->face_types_) ft.bending_modulus_ = k.bending;
    }
    for (size_t i = 0; i < b.cells.size(); i++) {
        b.cells[i]->initialize_random_properties();
        b.cells[i]->set_growth_rate(k.growth[i]);
    }
    const std::string dir = sk::scratch_dir("c15t");
    global_simulation_parameters sp = sk::basic_params(dir, t.edge);
    sp.min_edge_len_ = k.lmin_f * t.edge;
    sp.sampling_period_ = 3 * sp.time_step_;  // mesh output (two concurrent writer sections) every third iteration: the files are part of the result
    g_plan_seed = k.plan;
    g_plan_max_us = plan_us;
    bool ok = true;
    try {
        sk::test_solver S(sp, b.cells, threads, true);
        std::vector<size_t> nf;
        for (auto& c : S.cells()) nf.push_back(c->get_nb_of_faces());
        for (int it = 0; it < k.iterations; it++) S.run_iteration();
        for (size_t i = 0; i < S.cells().size() && i < nf.size(); i++)
            if (S.cells()[i]->get_nb_of_faces() != nf[i]) remesh_changes++;
        for (auto& c : S.cells()) {
            for (auto& n : cell_tester::nodes(*c)) {
                d.pos.push_back(n.pos().dx()), d.pos.push_back(n.pos().dy()), d.pos.push_back(n.pos().dz());
#if DYNAMIC_MODEL_INDEX == 0
                d.mom.push_back(n.momentum().dx()), d.mom.push_back(n.momentum().dy()), d.mom.push_back(n.momentum().dz());
#endif
                d.conn.push_back(n.is_used());
            }
            for (auto& f : cell_tester::faces(*c)) {
                d.conn.push_back(f.is_used());
                auto ids = cell_tester::face_ids(f);
                d.conn.insert(d.conn.end(), ids.begin(), ids.end());
            }
            d.conn.push_back(c->get_id());
        }
        d.stats = strip_clock(S.get_simulation_statistics());
        {
            // every byte of every mesh file written during the run
            std::vector<std::string> files;
            for (auto& e : std::filesystem::recursive_directory_iterator(dir))
                if (e.is_regular_file()) files.push_back(e.path().string());
            std::sort(files.begin(), files.end());
            for (auto& f : files) {
                std::ifstream in(f, std::ios::binary);
                std::ostringstream ss;
                ss << in.rdbuf();
                d.stats += "\n##file " + f.substr(dir.size()) + " " + std::to_string(ss.str().size()) + "\n" + ss.str();
            }
        }
        scope.add(S.cells());
    } catch (const std::exception& e) {
        err = e.what();
        ok = false;
    }
    g_plan_max_us = 0;
    std::error_code ec;
    std::filesystem::remove_all(dir, ec);
    return ok;
}

// Every run happens in a freshly forked child process (the parent of this sub never enters a parallel region), so that no state of a
// previous run that lives for the life of the process - a function-local static, a cache - can make two runs agree or disagree.
static bool write_all(int fd, const void* p, size_t n) {
    const char* c = (const char*)p;
    while (n) {
        ssize_t w = ::write(fd, c, n);
        if (w <= 0) return false;
        c += w, n -= (size_t)w;
    }
    return true;
}
static bool read_all(int fd, void* p, size_t n) {
    char* c = (char*)p;
    while (n) {
        ssize_t r = ::read(fd, c, n);
        if (r <= 0) return false;
        c += r, n -= (size_t)r;
    }
    return true;
}
template <class T>
static bool put_vec(int fd, const std::vector<T>& v) {
    uint64_t n = v.size();
    return write_all(fd, &n, sizeof n) && (n == 0 || write_all(fd, v.data(), n * sizeof(T)));
}
template <class T>
static bool get_vec(int fd, std::vector<T>& v) {
    uint64_t n = 0;
    if (!read_all(fd, &n, sizeof n) || n > (1ull << 28)) return false;
    v.resize(n);
    return n == 0 || read_all(fd, v.data(), n * sizeof(T));
}
// returns 1 ok, 0 the run threw (err), -1 the child died (err)
static int run_once_forked(const TCase& k, int threads, int plan_us, Digest& d, long& remesh_changes, std::string& err) {
    int fds[2];
    if (pipe(fds) != 0) {
        err = "pipe failed";
        return -1;
    }
    fflush(nullptr);
    pid_t pid = fork();
    if (pid == 0) {
        close(fds[0]);
        ct::CellScope scope;
        Digest dd;
        long rm = 0;
        std::string e;
        uint8_t ok = run_once(k, threads, plan_us, dd, scope, rm, e) ? 1 : 0;
        std::vector<char> st(dd.stats.begin(), dd.stats.end()), ev(e.begin(), e.end());
        int64_t rm64 = rm;
        bool w = write_all(fds[1], &ok, 1) && write_all(fds[1], &rm64, sizeof rm64) && put_vec(fds[1], dd.pos) && put_vec(fds[1], dd.mom) && put_vec(fds[1], dd.conn) &&
                 put_vec(fds[1], st) && put_vec(fds[1], ev);
        close(fds[1]);
        _exit(w ? 0 : 3);
    }
    close(fds[1]);
    if (pid < 0) {
        close(fds[0]);
        err = "fork failed";
        return -1;
    }
    uint8_t ok = 0;
    int64_t rm64 = 0;
    std::vector<char> st, ev;
    bool got = read_all(fds[0], &ok, 1) && read_all(fds[0], &rm64, sizeof rm64) && get_vec(fds[0], d.pos) && get_vec(fds[0], d.mom) && get_vec(fds[0], d.conn) && get_vec(fds[0], st) &&
               get_vec(fds[0], ev);
    close(fds[0]);
    int status = 0;
    waitpid(pid, &status, 0);
    if (!got || !WIFEXITED(status) || WEXITSTATUS(status) != 0) {
        std::ostringstream os;
        os << "the run with " << threads << " thread(s) died in its process (" << (WIFSIGNALED(status) ? "signal " + std::to_string(WTERMSIG(status)) : "exit code " + std::to_string(WEXITSTATUS(status))) << ")";
        err = os.str();
        return -1;
    }
    d.stats.assign(st.begin(), st.end());
    err.assign(ev.begin(), ev.end());
    remesh_changes += (long)rm64;
    return ok ? 1 : 0;
}
static std::string runT(const TCase& k, vf::Ctx& ctx) {
    simucell3d_verif::sched_point() = sched_cb;
    Digest ref, rep;
    long remesh = 0, dummy = 0;
    std::string err;
    int rc = run_once_forked(k, 1, 0, ref, remesh, err);
    if (rc < 0) return err;
    if (rc == 0) {
        ctx.count("reference_run_threw");
        return "";
    }
    rc = run_once_forked(k, 1, 0, rep, dummy, err);
    if (rc < 0) return err;
    if (rc == 0) return "repeated single-threaded run threw although the first did not: " + err;
    if (!(ref == rep)) return "repeating the single-threaded run with the same inputs gave different results";
    for (int t : k.thread_counts) {
        Digest d;
        rc = run_once_forked(k, t, k.plan_max_us, d, dummy, err);
        if (rc < 0) return err;
        if (rc == 0) return "run with " + std::to_string(t) + " threads threw although the single-threaded run did not: " + err;
        if (!(d == ref)) {
            std::ostringstream os;
            os << "run with " << t << " threads (sleep plan " << k.plan << ", up to " << k.plan_max_us << " us) differs from the single-threaded run: "
               << (d.conn != ref.conn ? "connectivity" : d.pos != ref.pos ? "node positions" : d.mom != ref.mom ? "momenta" : "statistics or mesh files");
            return os.str();
        }
    }
    if (k.bending > 0) ctx.count("cell_types_with_and_without_bending");
    ctx.count("thread_counts_compared", (long long)k.thread_counts.size());
    if (remesh) ctx.count("with_remeshing");
    if (k.plan_max_us) ctx.count("with_sleep_plan");
    if (remesh && k.thread_counts.size() >= 2) {
        ctx.nontriv();
        std::ostringstream s2;
        s2 << k.ncells << " cells, " << k.iterations << " iterations, threads {1";
        for (int t : k.thread_counts) s2 << "," << t;
        s2 << "}, plan up to " << k.plan_max_us << " us, l_min factor " << k.lmin_f;
        ctx.sample(s2.str());
    }
    return "";
}

// ------------------------------------------------------------------------------------------ divide
struct DCase {
    int n = 4, threads = 2, window_us = 500, plan_max_us = 300;
    std::vector<int> eligible;
    unsigned plan = 1;
    uint64_t seed = 1;
    void write(vf::Writer& w) const {
        w.i(n), w.i(threads), w.i(window_us), w.i(plan_max_us), w.u(plan), w.u(seed);
        for (int e : eligible) w.i(e);
        w.nl();
    }
    static DCase read(vf::Reader& r) {
        DCase c;
        c.n = (int)r.i(), c.threads = (int)r.i(), c.window_us = (int)r.i(), c.plan_max_us = (int)r.i(), c.plan = (unsigned)r.u(), c.seed = r.u();
        for (int i = 0; i < c.n; i++) c.eligible.push_back((int)r.i());
        return c;
    }
};
static rc::Gen<DCase> genD() {
    using namespace vf;
    return rc::gen::exec([]() {
        DCase c;
        c.n = *irange(2, 10);
        c.threads = *rc::gen::element(2, 3, 4, 8, 16);
        c.window_us = *rc::gen::element(200, 1000, 5000);
        c.plan_max_us = *rc::gen::element(0, 300, 2000);
        c.plan = (unsigned)*irange(1, 1 << 30);
        c.seed = (uint64_t)*irange(1, 1 << 30);
        // 0 = not ready, 1 = ready, 2 = ready, but its first attempt fails cleanly (cutting plane through one of its nodes) and is retried
        for (int i = 0; i < c.n; i++) c.eligible.push_back(*rc::gen::element(0, 1, 1, 1, 2));
        return c;
    });
}
// epithelial cell whose first division attempt can be made to fail cleanly: the cutting plane is put through one of its own nodes
// (get_cell_division_axis is virtual); once `forced_` is cleared it divides along its longest axis like any other cell
class axis_cell : public epithelial_cell {
  public:
    vec3 axis_;
    bool forced_ = false;
    axis_cell(const std::vector<double>& xyz, const std::vector<unsigned>& tri, unsigned id, cell_type_param_ptr t) : epithelial_cell(xyz, tri, id, t) {}
    vec3 get_cell_division_axis() const noexcept override { return forced_ ? axis_ : get_cell_longest_axis(); }
};
static std::vector<cell_ptr> make_population(const DCase& k, cell_type_param_ptr type, ct::CellScope& scope) {
    std::vector<cell_ptr> cells;
    for (int i = 0; i < k.n; i++) {
        // generic (not axis-symmetric) shapes so that the default longest axis gives clean cuts
        TriMesh m = tg::ball(1, 1.0, V3(5.0 * i, 0.37 * i, -0.21 * i), 1.0 + 0.23 + 0.03 * (i % 4), 0.91, 0.78 + 0.02 * (i % 3));
        for (size_t q = 0; q < m.nn(); q++) m.xyz[3 * q] += 0.013 * m.xyz[3 * q + 1] + 0.007 * m.xyz[3 * q + 2];
        auto ac = std::make_shared<axis_cell>(m.xyz, m.tri, (unsigned)i, type);
        ac->initialize_cell_properties();
        if (k.eligible[i] == 2) {
            auto& nl = cell_tester::nodes(*ac);
            V3 r = ct::to_v3(nl[(k.plan + 7 * i) % nl.size()].pos()) - ct::to_v3(ac->compute_centroid());
            V3 n = r.cross(V3(0.3, -0.7, 0.2));
            n = n * (1 / n.norm());
            ac->axis_ = ct::to_vec3(n), ac->forced_ = true;
        }
        cell_ptr c = ac;
        c->set_local_id((unsigned)i);
        cell_tester::division_volume(*c) = k.eligible[i] ? c->get_volume() * 0.5 : c->get_volume() * 10;
        scope.add(c);
        cells.push_back(c);
    }
    return cells;
}
static std::string runD(const DCase& k, vf::Ctx& ctx) {
    ct::CellScope scope;
    auto type = ct::default_cell_type(3);
    type->avg_division_vol_ = 1e300;
    local_mesh_refiner lmr(0.3, 0.9, true);
    simucell3d_verif::sched_point() = sched_cb;
    simucell3d_verif::list_access() = list_cb;
    simucell3d_verif::seed_source() = next_seed;
    // reference: one cell at a time, single thread
    std::vector<cell_ptr> ref = make_population(k, type, scope);
    int ref_divided = 0;
    {
        omp_set_num_threads(1);
        g_plan_max_us = 0;
        g_window_us = 0;
        unsigned max_id = (unsigned)k.n;
        for (int i = 0; i < k.n; i++) {
            if (!k.eligible[i]) continue;
            std::vector<cell_ptr> one{ref[i]};
            g_seed_state = k.seed + 31 * i;
            srand((unsigned)k.seed);
            cell_divider::run(one, 0.3, lmr, max_id, false);
            scope.add(one);
            if (one.size() == 2) ref_divided++;
        }
    }
    // parallel run under the generated schedule
    std::vector<cell_ptr> par = make_population(k, type, scope);
    std::vector<std::vector<double>> before;
    for (auto& c : par) before.push_back(c->get_flat_node_coord_lst());
    std::vector<cell_ptr> orig = par;
    g_overlaps = 0, g_reads = 0, g_resizes = 0, g_resizer = -1;
    g_plan_seed = k.plan, g_plan_max_us = k.plan_max_us, g_window_us = k.window_us;
    unsigned max_id = (unsigned)k.n;
    omp_set_num_threads(k.threads);
    g_seed_state = k.seed;
    srand((unsigned)k.seed);
    cell_divider::run(par, 0.3, lmr, max_id, false);
    omp_set_num_threads(1);
    g_plan_max_us = 0, g_window_us = 0;
    simucell3d_verif::list_access() = nullptr;
    simucell3d_verif::seed_source() = nullptr;
    scope.add(par);
    std::ostringstream os;
    if (g_overlaps.load() > 0) {
        os << "the population list was read by one thread while another thread was resizing it (" << g_overlaps.load() << " overlapping reads, " << g_resizes.load()
           << " resizes, " << k.threads << " threads)";
        return os.str();
    }
    std::set<unsigned> ids;
    for (auto& c : par) {
        if (!c) return "null cell in the population";
        if (!ids.insert(c->get_id()).second) return "duplicate cell id after parallel division";
    }
    int divided = 0;
    for (int i = 0; i < k.n; i++) {
        bool present = false;
        for (auto& c : par) present |= c == orig[i];
        if (present) {
            if (orig[i]->get_flat_node_coord_lst() != before[i]) return "a cell that did not divide was modified";
        } else {
            if (!k.eligible[i]) return "a cell that was not eligible disappeared";
            divided++;
        }
    }
    if ((int)par.size() != k.n + divided) {
        os << "population has " << par.size() << " cells after " << divided << " divisions of " << k.n << " cells (a cell was lost or duplicated)";
        return os.str();
    }
    if (max_id != (unsigned)(k.n + 2 * divided)) return "id counter inconsistent with the number of daughters";
    for (size_t i = 0; i < par.size(); i++) {
        if (divided && par[i]->get_local_id() != i) return "position index not renumbered after parallel division";
        ct::TopoOpts o;
        std::string t = ct::topo_check(*par[i], o);
        if (!t.empty()) return "cell " + std::to_string(par[i]->get_id()) + " after parallel division: " + t;
    }
    // same population as dividing one after another: same number of successful divisions (sampling is seeded per call, so the
    // outcome of each division may differ in detail, but success on these generic shapes does not depend on the draw)
    if (divided != ref_divided) {
        os << divided << " cells divided in parallel, " << ref_divided << " when divided one after another";
        ctx.count("division_count_differs_from_sequential");
    }
    // retry, as the solver does five iterations later: the mothers whose first attempt failed are still ready and now divide along their
    // longest axis, in the same call, among the daughters of the first call; ids must stay distinct and nobody may get lost
    int failed_first = 0, failed_before_a_success = 0, last_success = -1;
    for (int i = 0; i < k.n; i++)
        if (k.eligible[i] && std::find(par.begin(), par.end(), orig[i]) == par.end()) last_success = i;
    for (int i = 0; i < k.n; i++) {
        if (!k.eligible[i] || std::find(par.begin(), par.end(), orig[i]) == par.end()) continue;
        failed_first++;
        if (i < last_success) failed_before_a_success++;
        if (auto ac = std::dynamic_pointer_cast<axis_cell>(orig[i])) ac->forced_ = false;
    }
    if (failed_first) {
        ctx.count("calls_with_a_failed_division");
        if (failed_before_a_success) ctx.count("calls_with_a_failed_division_listed_before_a_successful_one");
        const size_t n_before = par.size();
        simucell3d_verif::seed_source() = next_seed;
        g_seed_state = k.seed + 977;
        omp_set_num_threads(k.threads);
        cell_divider::run(par, 0.3, lmr, max_id, false);
        omp_set_num_threads(1);
        simucell3d_verif::seed_source() = nullptr;
        scope.add(par);
        std::set<unsigned> ids2;
        for (auto& c : par) {
            if (!c) return "null cell in the population after the retry";
            if (!ids2.insert(c->get_id()).second) {
                os << "two cells share the id " << c->get_id() << " after the division that failed in the first call was retried";
                return os.str();
            }
        }
        int retried_ok = 0;
        for (int i = 0; i < k.n; i++)
            if (k.eligible[i] == 2 && std::find(par.begin(), par.end(), orig[i]) == par.end()) retried_ok++;
        if (par.size() != n_before + (size_t)retried_ok) return "population size after the retry does not match the number of divisions";
        ctx.count("retried_divisions_that_succeeded", retried_ok);
    }
    ctx.count("divisions", divided);
    ctx.count("list_reads_observed", g_reads.load());
    ctx.count("list_resizes_observed", g_resizes.load());
    if (divided >= 2) {
        ctx.nontriv();
        std::ostringstream s2;
        s2 << k.n << " cells, " << divided << " divided with " << k.threads << " threads, resize window " << k.window_us << " us, " << g_reads.load() << " reads observed";
        ctx.sample(s2.str());
    }
    return "";
}

// ------------------------------------------------------------------------------------------ exceptions
struct my_error_a : public std::exception {
    std::string m;
    explicit my_error_a(const std::string& s) : m(s) {}
    const char* what() const noexcept override { return m.c_str(); }
};
struct my_error_b : public std::runtime_error {
    using std::runtime_error::runtime_error;
};
struct ECase {
    int n = 10, threads = 2, user = 0;  // user 0: handler itself, 1: refine_meshes, 2: mesh_writer::write
    std::vector<unsigned> throwers;
    unsigned plan = 1;
    void write(vf::Writer& w) const {
        w.i(n), w.i(threads), w.i(user), w.vu(throwers), w.u(plan);
    }
    static ECase read(vf::Reader& r) {
        ECase c;
        c.n = (int)r.i(), c.threads = (int)r.i(), c.user = (int)r.i(), c.throwers = r.vu(), c.plan = (unsigned)r.u();
        return c;
    }
};
static rc::Gen<ECase> genE() {
    using namespace vf;
    return rc::gen::exec([]() {
        ECase c;
        c.user = *rc::gen::weightedElement<int>({{4, 0}, {2, 1}, {2, 2}});
        c.n = c.user == 0 ? *irange(0, 200) : *irange(1, 8);
        c.threads = *rc::gen::element(1, 2, 3, 4, 8, 16);
        int nt = *rc::gen::weightedElement<int>({{1, 0}, {3, 1}, {2, 2}, {1, 5}});
        for (int i = 0; i < nt; i++) c.throwers.push_back((unsigned)*irange(0, 1000));
        c.plan = (unsigned)*irange(1, 1 << 30);
        return c;
    });
}
static std::string runE(const ECase& k, vf::Ctx& ctx) {
    ct::CellScope scope;
    omp_set_num_threads(k.threads);
    simucell3d_verif::sched_point() = sched_cb;
    g_plan_seed = k.plan;
    g_plan_max_us = 200;
    struct Reset {
        ~Reset() {
            g_plan_max_us = 0;
            omp_set_num_threads(1);
        }
    } reset;
    std::set<size_t> thr;
    if (k.n > 0)
        for (unsigned t : k.throwers) thr.insert(t % (size_t)k.n);
    if (k.user == 0) {
        std::vector<int> items(k.n);
        for (int i = 0; i < k.n; i++) items[i] = i;
        std::vector<std::atomic<int>> seen(k.n);
        for (auto& s : seen) s = 0;
        std::function<void(int)> f = [&](int i) {
            seen[i]++;
            if (thr.count((size_t)i)) {
                if (i % 2) throw my_error_a("A" + std::to_string(i));
                throw my_error_b("B" + std::to_string(i));
            }
        };
        bool caught = false;
        std::string what, tname;
        try {
            parallel_exception_handler(items, f);
        } catch (const my_error_a& e) {
            caught = true, what = e.what(), tname = "A";
        } catch (const my_error_b& e) {
            caught = true, what = e.what(), tname = "B";
        } catch (...) {
            return "the caller received an exception of another type than the ones thrown";
        }
        for (int i = 0; i < k.n; i++)
            if (seen[i] != 1) return "element " + std::to_string(i) + " was processed " + std::to_string(seen[i].load()) + " times (every thread must finish its share)";
        if (thr.empty() && caught) return "exception although nothing threw";
        if (!thr.empty()) {
            if (!caught) return "an exception thrown in the parallel loop did not reach the caller";
            int idx = atoi(what.c_str() + 1);
            if (what[0] != tname[0] || !thr.count((size_t)idx) || (idx % 2 ? 'A' : 'B') != what[0]) return "the exception that reached the caller is not one of those thrown (type/message mangled): " + what;
        }
        ctx.count("handler_cases");
        if (thr.size() >= 2) ctx.nontriv(), ctx.sample(std::to_string(k.n) + " elements, " + std::to_string(thr.size()) + " throwing, " + std::to_string(k.threads) + " threads");
        return "";
    }
    // real users: a population with failing cells at the generated positions
    std::vector<cell_ptr> cells;
    auto type = ct::default_cell_type(3);
    for (int i = 0; i < k.n; i++) {
        cell_ptr c = ct::make_cell<epithelial_cell>(tg::ball(1, 1.0, V3(4.0 * i, 0, 0)), (unsigned)i, type);
        scope.add(c);
        cells.push_back(c);
    }
    if (k.user == 1) {
        // all edges far below l_min in the failing cells -> the pass gives up with mesh_integrity_exception
        for (size_t i : thr) sk::scale_cell(*cells[i], 0.05);
        local_mesh_refiner lmr(0.28, 0.84, true);
        bool caught = false;
        try {
            lmr.refine_meshes(cells);
        } catch (const mesh_integrity_exception& e) {
            caught = true;
            std::string w = e.what();
            bool names_a_failing_cell = false;
            for (size_t i : thr) names_a_failing_cell |= w.find("cell " + std::to_string(i) + " ") != std::string::npos;
            if (!names_a_failing_cell) return "mesh_integrity_exception does not name one of the cells that failed: " + w;
        } catch (const std::exception& e) {
            return std::string("refine_meshes reported the failure with another exception type: ") + typeid(e).name();
        }
        if (!thr.empty() && !caught) {
            ctx.count("refine_did_not_fail_(cell_survived_collapse)");
            return "";
        }
        if (thr.empty() && caught) return "refine_meshes threw on healthy cells";
        for (size_t i = 0; i < cells.size(); i++)
            if (!thr.count(i)) {
                std::string t = ct::topo_check(*cells[i]);
                if (!t.empty()) return "a healthy cell was left invalid when another cell failed: " + t;
            }
        ctx.count("refine_meshes_cases");
        if (thr.size() >= 2) ctx.nontriv(), ctx.sample("refine_meshes: " + std::to_string(k.n) + " cells, " + std::to_string(thr.size()) + " failing, " + std::to_string(k.threads) + " threads");
        return "";
    }
    // mesh_writer::write with a NaN coordinate in the failing cells
    for (size_t i : thr) cell_tester::pos(cell_tester::nodes(*cells[i])[i % 7]) = vec3(std::nan(""), 0, 0);
    const std::string dir = sk::scratch_dir("c15e");
    std::filesystem::create_directories(dir);
    bool caught = false;
    try {
        mesh_writer::write(dir + "/c.vtk", dir + "/f.vtk", cells);
    } catch (const mesh_writer_exception&) {
        caught = true;
    } catch (const std::exception& e) {
        std::error_code ec;
        std::filesystem::remove_all(dir, ec);
        return std::string("mesh_writer::write reported NaN with another exception type: ") + typeid(e).name();
    }
    std::error_code ec;
    std::filesystem::remove_all(dir, ec);
    if (!thr.empty() && !caught) return "NaN coordinate written without mesh_writer_exception";
    if (thr.empty() && caught) return "mesh_writer_exception on finite coordinates";
    ctx.count("mesh_writer_cases");
    if (!thr.empty()) ctx.nontriv(), ctx.sample("mesh_writer::write: " + std::to_string(k.n) + " cells, " + std::to_string(thr.size()) + " with NaN, " + std::to_string(k.threads) + " threads");
    return "";
}

int main(int argc, char** argv) {
    std::vector<vf::Sub> subs;
    subs.push_back(vf::make_sub<TCase>("threads", genT, runT));
    subs.push_back(vf::make_sub<DCase>("divide", genD, runD));
    subs.push_back(vf::make_sub<ECase>("exceptions", genE, runE));
    return vf::engine_main(argc, argv, "C15_threads", subs);
}
