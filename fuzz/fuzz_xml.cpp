// libFuzzer target: arbitrary bytes offered as parameter file.
// Outcome: parsed or std::exception. Semantic oracle on success: the constraints the reader announces hold on the values it returns.
#include <unistd.h>

#include <cmath>
#include <cstdint>
#include <cstdio>
#include <string>

#include "parameter_reader.hpp"

static std::string g_path;

extern "C" int LLVMFuzzerTestOneInput(const uint8_t* data, size_t size) {
    if (g_path.empty()) g_path = std::string(getenv("VERIF_FUZZ_TMP") ? getenv("VERIF_FUZZ_TMP") : "/tmp") + "/fuzz_xml_" + std::to_string(getpid()) + ".xml";
    FILE* f = fopen(g_path.c_str(), "wb");
    if (!f) return 0;
    fwrite(data, 1, size, f);
    fclose(f);
    try {
        parameter_reader rd(g_path);
        global_simulation_parameters sp = rd.read_numerical_parameters();
        if (!(sp.time_step_ > 0) || !(sp.sampling_period_ >= sp.time_step_) || !(sp.simulation_duration_ > 0) || !(sp.min_edge_len_ > 0) ||
            !(sp.contact_cutoff_adhesion_ > 0) || !(sp.contact_cutoff_repulsion_ > 0) || sp.damping_coefficient_ < 0)
            __builtin_trap();  // accepted a value the reader says it rejects
        auto types = rd.read_biomechanical_parameters();
        for (auto& t : types) {
            if (!t || t->face_types_.empty()) __builtin_trap();
            if (!(t->target_isoperimetric_ratio_ > 0) || !(t->std_growth_rate_ >= 0) || !(t->std_division_vol_ >= 0)) __builtin_trap();
            for (auto& ft : t->face_types_)
                if (ft.surface_tension_ < 0 || ft.adherence_strength_ < 0 || ft.repulsion_strength_ < 0 || ft.bending_modulus_ < 0 || ft.face_type_global_id_ < 0) __builtin_trap();
        }
    } catch (const std::exception&) {
    }
    return 0;
}
