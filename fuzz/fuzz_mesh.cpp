// libFuzzer target: arbitrary bytes offered as mesh file to the simulator's reader.
// Outcome must be: parsed, or an exception derived from std::exception. Semantic oracle on success: every face of every
// returned mesh refers to nodes of that mesh and the coordinate arrays are complete triples of finite numbers.
#include <unistd.h>

#include <cmath>
#include <cstdint>
#include <cstdio>
#include <string>

#include "mesh_reader.hpp"

static std::string g_path;

extern "C" int LLVMFuzzerTestOneInput(const uint8_t* data, size_t size) {
    if (g_path.empty()) g_path = std::string(getenv("VERIF_FUZZ_TMP") ? getenv("VERIF_FUZZ_TMP") : "/tmp") + "/fuzz_mesh_" + std::to_string(getpid()) + ".vtk";
    FILE* f = fopen(g_path.c_str(), "wb");
    if (!f) return 0;
    fwrite(data, 1, size, f);
    fclose(f);
    try {
        mesh_reader rd(g_path, false);
        std::vector<mesh> cells = rd.read();
        for (const mesh& m : cells) {
            if (m.node_pos_lst.size() % 3 != 0) __builtin_trap();
            const size_t nn = m.node_pos_lst.size() / 3;
            for (double v : m.node_pos_lst)
                if (!std::isfinite(v)) __builtin_trap();
            for (const auto& face : m.face_point_ids)
                for (unsigned id : face)
                    if (id >= nn) __builtin_trap();  // a face of an accepted mesh refers to a node that does not exist
        }
        std::vector<short> types = rd.get_cell_types();
        (void)types;
    } catch (const std::exception&) {
    }
    return 0;
}
