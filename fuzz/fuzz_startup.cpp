// libFuzzer target, structure aware: the bytes are decoded into a list of edits applied to a valid parameter file and a valid
// mesh file; the whole start-up (simulation_initializer: both readers, validation, optional reconstruction) then runs.
// Outcome: cells or std::exception. Semantic oracle on success: every returned cell is non-null and its mesh is manifold
// by the cell's own test.
#include <fuzzer/FuzzedDataProvider.h>
#include <unistd.h>

#include <cmath>
#include <cstdint>
#include <cstdio>
#include <cstdlib>
#include <string>
#include <vector>

#include "simulation_initializer.hpp"

static const char* VTK =
    "# vtk DataFile Version 4.2\nvtk output\nASCII\nDATASET UNSTRUCTURED_GRID\nPOINTS 8 double\n"
    "-1 -1 -1 1 -1 -1 -1 1 -1 1 1 -1 -1 -1 1 1 -1 1 -1 1 1 1 1 1\n\nCELLS 1 32\n"
    "31 6 4 0 2 3 1 4 4 5 7 6 4 0 1 5 4 4 2 6 7 3 4 0 4 6 2 4 1 3 7 5\n\nCELL_TYPES 1\n42\n\nCELL_DATA 1\nFIELD FieldData 1\ncell_type_id 1 1 int\n0\n";

static std::string xml_for(const std::string& mesh, const std::string& out) {
    std::string ft;
    for (int j = 0; j < 3; j++)
        ft += "<face_type><global_face_id>" + std::to_string(j) + "</global_face_id><face_type_name>f" + std::to_string(j) +
              "</face_type_name><adherence_strength>1</adherence_strength><repulsion_strength>10</repulsion_strength><surface_tension>1</surface_tension>"
              "<bending_modulus>0</bending_modulus></face_type>\n";
    return "<numerical_parameters>\n<input_mesh_file_path>" + mesh + "</input_mesh_file_path>\n<output_mesh_folder_path>" + out +
           "</output_mesh_folder_path>\n<damping_coefficient>5</damping_coefficient>\n<simulation_duration>1e-2</simulation_duration>\n"
           "<sampling_period>2e-3</sampling_period>\n<time_step>1e-3</time_step>\n<min_edge_length>0.6</min_edge_length>\n"
           "<contact_cutoff_adhesion>0.1</contact_cutoff_adhesion>\n<contact_cutoff_repulsion>0.1</contact_cutoff_repulsion>\n"
           "<enable_edge_swap_operation>1</enable_edge_swap_operation>\n<perform_initial_triangulation>1</perform_initial_triangulation>\n"
           "</numerical_parameters>\n<cell_types>\n<cell_type>\n<cell_type_name>epithelial</cell_type_name>\n<global_cell_id>0</global_cell_id>\n"
           "<cell_mass_density>1</cell_mass_density>\n<cell_bulk_modulus>1</cell_bulk_modulus>\n<max_inner_pressure>INF</max_inner_pressure>\n"
           "<avg_growth_rate>0</avg_growth_rate>\n<std_growth_rate>0</std_growth_rate>\n<target_isoperimetric_ratio>150</target_isoperimetric_ratio>\n"
           "<angle_regularization_factor>0</angle_regularization_factor>\n<area_elasticity_modulus>0.1</area_elasticity_modulus>\n"
           "<surface_coupling_max_curvature>1e9</surface_coupling_max_curvature>\n<avg_division_volume>INF</avg_division_volume>\n"
           "<std_division_volume>0</std_division_volume>\n<min_vol>1e-9</min_vol>\n<face_types>\n" + ft + "</face_types>\n</cell_type>\n</cell_types>\n";
}

static std::vector<std::pair<size_t, size_t>> tokens(const std::string& s) {
    std::vector<std::pair<size_t, size_t>> t;
    size_t i = 0;
    while (i < s.size()) {
        while (i < s.size() && isspace((unsigned char)s[i])) i++;
        size_t a = i;
        while (i < s.size() && !isspace((unsigned char)s[i])) i++;
        if (i > a) t.push_back({a, i});
    }
    return t;
}
static void edit(std::string& text, FuzzedDataProvider& fdp, bool xml) {
    static const char* HOSTILE[] = {"-1", "0", "1", "2", "7", "31", "999", "2147483647", "4294967296", "1e308", "1e-308", "nan", "inf", "INF", "abc", "", " ", "1.5", "-0.0", "3 3 3"};
    int n = fdp.ConsumeIntegralInRange<int>(0, 4);
    for (int k = 0; k < n && !text.empty(); k++) {
        std::vector<std::pair<size_t, size_t>> t;
        if (xml) {
            // element texts: >text<
            for (size_t i = 0; i + 1 < text.size(); i++)
                if (text[i] == '>' && text[i + 1] != '<' && text[i + 1] != '\n') {
                    size_t e = text.find('<', i + 1);
                    if (e != std::string::npos) t.push_back({i + 1, e});
                }
        } else t = tokens(text);
        if (t.empty()) return;
        auto span = t[fdp.ConsumeIntegralInRange<size_t>(0, t.size() - 1)];
        int op = fdp.ConsumeIntegralInRange<int>(0, 3);
        std::string tok = text.substr(span.first, span.second - span.first);
        if (op == 0) text.erase(span.first, span.second - span.first);
        else if (op == 1) text.insert(span.second, " " + tok);
        else if (op == 2) text.replace(span.first, span.second - span.first, HOSTILE[fdp.ConsumeIntegralInRange<size_t>(0, sizeof HOSTILE / sizeof HOSTILE[0] - 1)]);
        else text.replace(span.first, span.second - span.first, fdp.ConsumeRandomLengthString(12));
    }
}

extern "C" int LLVMFuzzerTestOneInput(const uint8_t* data, size_t size) {
    static std::string dir = std::string(getenv("VERIF_FUZZ_TMP") ? getenv("VERIF_FUZZ_TMP") : "/tmp") + "/fuzz_startup_" + std::to_string(getpid());
    static bool made = (std::filesystem::create_directories(dir), true);
    (void)made;
    FuzzedDataProvider fdp(data, size);
    std::string vtk = VTK, xml = xml_for(dir + "/m.vtk", dir + "/out");
    edit(vtk, fdp, false);
    edit(xml, fdp, true);
    // Known finding KF1 (recorded in known_findings.json): with the initial triangulation enabled, time and memory grow with
    // (extent / min_edge_length)^2 whatever the size of the input. Such inputs are excluded by construction so that the search goes on.
    {
        double lmin = 0.6, maxc = 0;
        size_t p = xml.find("<min_edge_length>");
        if (p != std::string::npos) lmin = strtod(xml.c_str() + p + 17, nullptr);
        size_t a = vtk.find("POINTS"), b = vtk.find("CELLS");
        if (a != std::string::npos) {
            const char* q = vtk.c_str() + a;
            const char* end = vtk.c_str() + (b == std::string::npos || b < a ? vtk.size() : b);
            while (q < end) {
                char* e = nullptr;
                double v = strtod(q, &e);
                if (e == q) q++;
                else {
                    if (std::isfinite(v) && std::fabs(v) > maxc && std::fabs(v) < 1e300) maxc = std::fabs(v);
                    q = e;
                }
            }
        }
        if (!(lmin > 0) || maxc / lmin > 150) return 0;
    }
    {
        FILE* f = fopen((dir + "/m.vtk").c_str(), "wb");
        if (!f) return 0;
        fwrite(vtk.data(), 1, vtk.size(), f);
        fclose(f);
        f = fopen((dir + "/p.xml").c_str(), "wb");
        if (!f) return 0;
        fwrite(xml.data(), 1, xml.size(), f);
        fclose(f);
    }
    // keep the library's retry messages off the fuzzer's stderr
    static FILE* devnull = freopen("/dev/null", "w", stdout);
    (void)devnull;
    try {
        simulation_initializer init(dir + "/p.xml", false);
        for (auto& c : init.get_cell_lst()) {
            if (!c) __builtin_trap();
            if (c->get_nb_of_faces() < 4 || !c->is_manifold()) __builtin_trap();  // a non-manifold cell handed to the solver
            c->clear_data();
        }
    } catch (const std::exception&) {
    }
    return 0;
}
