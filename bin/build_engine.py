import sys; sys.path.insert(0,'/verif')
from vlib import build
print(build.ensure_engine(sys.argv[1], sys.argv[2] if len(sys.argv)>2 else 'san', extra_flags=['-DVERIF_VARIANT="%s"' % (sys.argv[2] if len(sys.argv)>2 else 'san')]))
