#!/usr/bin/env python3
"""usage: store_seed.py <src dir with patch.diff, demo/, README.md> <name> <meta.json fragment file>
Copies a confirmed seeded change into /verif/seeded/<name>/ (patch.diff, demo/, README.md of the author, meta.json)."""
import json, os, shutil, sys
src, name, frag = sys.argv[1:4]
dst = os.path.join("/verif/seeded", name)
shutil.rmtree(dst, ignore_errors=True)
os.makedirs(dst)
shutil.copy(os.path.join(src, "patch.diff"), dst)
shutil.copy(os.path.join(src, "README.md"), os.path.join(dst, "AUTHOR_README.md"))
shutil.copytree(os.path.join(src, "demo"), os.path.join(dst, "demo"), ignore=shutil.ignore_patterns("*.o", "*.exe", "build*", "*.log", "a.out", "demo_bin*"))
for root, dirs, files in os.walk(os.path.join(dst, "demo")):
    for f in files:
        p = os.path.join(root, f)
        if os.path.getsize(p) > 300000:
            os.unlink(p)
meta = json.load(open(frag))
json.dump(meta, open(os.path.join(dst, "meta.json"), "w"), indent=1)
print("stored", dst, os.listdir(dst), os.listdir(os.path.join(dst, "demo")))
