#!/usr/bin/env python3
"""Regenerates the table of seeded changes in DESIGN.md (between the SEED_TABLE markers) from seeded/*/meta.json."""
import glob, json, os, re
V = os.path.dirname(os.path.dirname(os.path.abspath(__file__)))
rows = []
for d in sorted(glob.glob(os.path.join(V, "seeded", "*"))):
    m = json.load(open(os.path.join(d, "meta.json")))
    name = os.path.basename(d)
    caught = "; ".join("%s (%s)" % kv for kv in m["caught_by"].items()) or "none"
    first = m["first_result"].replace("|", "/")
    stren = (m.get("strengthening") or "").replace("|", "/")
    rows.append("| `%s` | %s | %s | %s | %s | %s |" % (name, m["property"], m["change"].replace("|", "/"), m["needs"].replace("|", "/"), first + (" **Strengthened:** " + stren if stren else ""), caught))
n = len(rows)
missed = sum(1 for d in glob.glob(os.path.join(V, "seeded", "*")) if "MISSED" in json.load(open(os.path.join(d, "meta.json")))["first_result"])
open_ = sum(1 for d in glob.glob(os.path.join(V, "seeded", "*")) if not json.load(open(os.path.join(d, "meta.json")))["caught_by"])
t = ("%d seeded changes were confirmed and kept; %d were caught by the checks as they stood, %d were missed at first and led to a strengthened generator or oracle, %d remain uncaught.\n\n"
     % (n, n - missed, missed - open_, open_))
t += "| seeded change | property | the change | what it needs to manifest | result | caught by |\n|---|---|---|---|---|---|\n" + "\n".join(rows) + "\n"
p = os.path.join(V, "DESIGN.md")
s = open(p).read()
if "SEED_TABLE" in s and "<!-- SEED_TABLE_BEGIN -->" not in s:
    s = s.replace("SEED_TABLE", "<!-- SEED_TABLE_BEGIN -->\n<!-- SEED_TABLE_END -->", 1)
s = re.sub(r"<!-- SEED_TABLE_BEGIN -->.*?<!-- SEED_TABLE_END -->", lambda _: "<!-- SEED_TABLE_BEGIN -->\n" + t + "<!-- SEED_TABLE_END -->", s, flags=re.S)
open(p, "w").write(s)
print(n, "rows")
